import DiplomatModel.JsArena
namespace DiplomatModel.JsArena

theorem pushAt_length (xs : List (List Nat)) (i a : Nat) : (pushAt xs i a).length = xs.length := by
  induction xs generalizing i with
  | nil => rfl
  | cons x xs ih => cases i <;> simp [pushAt, ih]

theorem pushAll_length (xs : List (List Nat)) (a : Nat) (es : List (Option Nat)) : (pushAll xs a es).length = xs.length := by
  induction es generalizing xs with
  | nil => rfl
  | cons e es ih => cases e <;> simp [pushAll, ih, pushAt_length]

/-- pushing never removes anything from any array -/
theorem pushAt_keeps (xs : List (List Nat)) (i a j b : Nat) (h : ∃ l, xs[j]? = some l ∧ b ∈ l) :
    ∃ l, (pushAt xs i a)[j]? = some l ∧ b ∈ l := by
  induction xs generalizing i j with
  | nil => simpa [pushAt] using h
  | cons x xs ih =>
    cases i with
    | zero =>
      cases j with
      | zero => obtain ⟨l, hl, hb⟩ := h; simp at hl; subst hl; exact ⟨x ++ [a], by simp [pushAt], by simp [hb]⟩
      | succ j => simpa [pushAt] using h
    | succ i =>
      cases j with
      | zero => simpa [pushAt] using h
      | succ j => simpa [pushAt] using ih i j (by simpa using h)

theorem pushAt_mem (xs : List (List Nat)) (i a : Nat) (h : i < xs.length) :
    ∃ l, (pushAt xs i a)[i]? = some l ∧ a ∈ l := by
  induction xs generalizing i with
  | nil => simp at h
  | cons x xs ih =>
    cases i with
    | zero => exact ⟨x ++ [a], by simp [pushAt], by simp⟩
    | succ i => simpa [pushAt] using ih i (by simpa using h)

theorem pushAll_keeps (xs : List (List Nat)) (a : Nat) (es : List (Option Nat)) (j b : Nat)
    (h : ∃ l, xs[j]? = some l ∧ b ∈ l) : ∃ l, (pushAll xs a es)[j]? = some l ∧ b ∈ l := by
  induction es generalizing xs with
  | nil => simpa [pushAll] using h
  | cons e es ih =>
    cases e with
    | none => simpa [pushAll] using ih xs h
    | some i => simpa [pushAll] using ih (pushAt xs i a) (pushAt_keeps xs i a j b h)

theorem pushAll_mem (xs : List (List Nat)) (a : Nat) (es : List (Option Nat)) (i : Nat)
    (hi : some i ∈ es) (hl : i < xs.length) : ∃ l, (pushAll xs a es)[i]? = some l ∧ a ∈ l := by
  induction es generalizing xs with
  | nil => simp at hi
  | cons e es ih =>
    cases e with
    | none =>
      have : some i ∈ es := by simpa using hi
      simpa [pushAll] using ih xs this hl
    | some k =>
      simp only [List.mem_cons] at hi
      cases hi with
      | inl h1 =>
        have hk : k = i := by injection h1.symm
        subst hk
        simpa [pushAll] using pushAll_keeps (pushAt xs k a) a es k a (pushAt_mem xs k a hl)
      | inr h2 =>
        simpa [pushAll] using ih (pushAt xs k a) h2 (by rw [pushAt_length]; exact hl)

theorem runCalls_keeps (s : St) (cs : List (List (Option Nat))) (j b : Nat)
    (h : ∃ l, s.arrays[j]? = some l ∧ b ∈ l) : ∃ l, (runCalls s cs).arrays[j]? = some l ∧ b ∈ l := by
  induction cs generalizing s with
  | nil => simpa [runCalls] using h
  | cons c cs ih =>
    simp only [runCalls]
    exact ih (createWith s c).1 (by simpa [createWith] using pushAll_keeps s.arrays s.next c j b h)

end DiplomatModel.JsArena
