import DiplomatModel.JsLayout
namespace DiplomatModel.JsLayout

theorem pad_spec (n a : Nat) (ha : 0 < a) : (n + padTo n a) % a = 0 ∧ padTo n a < a := by
  unfold padTo
  have hr : n % a < a := Nat.mod_lt n ha
  have hd : a * (n / a) + n % a = n := Nat.div_add_mod n a
  refine ⟨?_, Nat.mod_lt _ ha⟩
  by_cases h0 : n % a = 0
  · rw [h0]; simp; exact h0
  · have hp : (a - n % a) % a = a - n % a := Nat.mod_eq_of_lt (by omega)
    rw [hp]
    generalize hq : a * (n / a) = q at hd
    have : n + (a - n % a) = a * (n / a + 1) := by
      rw [Nat.mul_add, Nat.mul_one, hq]; omega
    rw [this]; exact Nat.mul_mod_right a (n / a + 1)

/-- the offsets the loop assigns, as a plain recursion -/
def offsetsFrom (next : Nat) : List (Nat × Nat × SC) → List Nat
  | [] => []
  | (sz, al, _) :: r => (next + padTo next al) :: offsetsFrom (next + padTo next al + sz) r

/-- where the next field would start after laying out `fs` from `next` -/
def endFrom (next : Nat) : List (Nat × Nat × SC) → Nat
  | [] => next
  | (sz, al, _) :: r => endFrom (next + padTo next al + sz) r

def maxAlignFrom (m : Nat) : List (Nat × Nat × SC) → Nat
  | [] => m
  | (_, al, _) :: r => maxAlignFrom (max m al) r

theorem setLastPadding_offsets (fs : List FieldLayout) (c w : Nat) :
    (setLastPadding fs c w).map (·.offset) = fs.map (·.offset) := by
  unfold setLastPadding
  cases h : fs.reverse with
  | nil => simp at h; subst h; rfl
  | cons l rest =>
    have : fs = rest.reverse ++ [l] := by
      have := congrArg List.reverse h; simpa using this
    subst this
    simp

theorem foldl_step (fs : List (Nat × Nat × SC)) (s : St) :
    ((fs.foldl stepField s).fields.map (·.offset) = s.fields.map (·.offset) ++ offsetsFrom s.next fs)
    ∧ (fs.foldl stepField s).next = endFrom s.next fs
    ∧ (fs.foldl stepField s).maxAlign = maxAlignFrom s.maxAlign fs := by
  induction fs generalizing s with
  | nil => simp [offsetsFrom, endFrom, maxAlignFrom]
  | cons f r ih =>
    obtain ⟨sz, al, sc⟩ := f
    simp only [List.foldl_cons]
    obtain ⟨h1, h2, h3⟩ := ih (stepField s (sz, al, sc))
    refine ⟨?_, ?_, ?_⟩
    · rw [h1]
      simp only [stepField, offsetsFrom, List.map_append, List.map_cons, List.map_nil]
      split <;> simp [setLastPadding_offsets]
    · rw [h2]; simp [stepField, endFrom]
    · rw [h3]; simp [stepField, maxAlignFrom]

/-- characterisation of a `#[repr(C)]` field placement: every offset is a multiple of the field's
    alignment, fields do not overlap and keep their order, and each gap is smaller than the alignment
    that caused it (i.e. each offset is the least admissible one) -/
def Good : List (Nat × Nat × SC) → List Nat → Nat → Prop
  | [], [], _ => True
  | (sz, al, _) :: fs, o :: os, next => o % al = 0 ∧ next ≤ o ∧ o - next < al ∧ Good fs os (o + sz)
  | _, _, _ => False

theorem offsetsFrom_good (fs : List (Nat × Nat × SC)) (hpos : ∀ f ∈ fs, 0 < f.2.1) :
    ∀ next, Good fs (offsetsFrom next fs) next := by
  induction fs with
  | nil => intro next; trivial
  | cons f r ih =>
    intro next
    obtain ⟨sz, al, sc⟩ := f
    have hal : 0 < al := hpos (sz, al, sc) (by simp)
    have hp := pad_spec next al hal
    simp only [offsetsFrom, Good]
    exact ⟨hp.1, by omega, by omega, ih (fun f hf => hpos f (by simp [hf])) _⟩

theorem maxAlignFrom_ge (fs : List (Nat × Nat × SC)) (m : Nat) :
    m ≤ maxAlignFrom m fs ∧ ∀ f ∈ fs, f.2.1 ≤ maxAlignFrom m fs := by
  induction fs generalizing m with
  | nil => simp [maxAlignFrom]
  | cons f r ih =>
    obtain ⟨sz, al, sc⟩ := f
    simp only [maxAlignFrom]
    obtain ⟨h1, h2⟩ := ih (max m al)
    refine ⟨by omega, ?_⟩
    intro g hg
    rcases List.mem_cons.mp hg with rfl | hg
    · simp; omega
    · exact h2 g hg

theorem maxAlignFrom_mem (fs : List (Nat × Nat × SC)) (m : Nat) :
    maxAlignFrom m fs = m ∨ ∃ f ∈ fs, maxAlignFrom m fs = f.2.1 := by
  induction fs generalizing m with
  | nil => simp [maxAlignFrom]
  | cons f r ih =>
    obtain ⟨sz, al, sc⟩ := f
    simp only [maxAlignFrom]
    rcases ih (max m al) with h | ⟨g, hg, h⟩
    · by_cases hm : al ≤ m
      · left; rw [h]; omega
      · right; exact ⟨(sz, al, sc), by simp, by rw [h]; simp; omega⟩
    · right; exact ⟨g, by simp [hg], h⟩

end DiplomatModel.JsLayout
