import DiplomatModel.JsStr
namespace DiplomatModel.JsStr
open DiplomatModel.Utf8

theorem enc_length (c : Nat) : (enc c).length = cpLen c := by
  unfold enc cpLen
  by_cases h1 : c < 0x80
  · simp [h1]
  · by_cases h2 : c < 0x800
    · simp [h1, h2]
    · by_cases h3 : c < 0x10000
      · simp [h1, h2, h3]
      · simp [h1, h2, h3]

/-- replacing a lone surrogate by U+FFFD does not change the number of bytes: both take three -/
theorem cpLen_scalarOf (c : Nat) : cpLen (scalarOf c) = cpLen c := by
  unfold scalarOf
  by_cases h : (0xD800 ≤ c && c ≤ 0xDFFF) = true
  · simp only [h, if_true]
    simp only [Bool.and_eq_true, decide_eq_true_eq] at h
    unfold cpLen
    have h1 : ¬ c < 0x80 := by omega
    have h2 : ¬ c < 0x800 := by omega
    have h3 : c < 0x10000 := by omega
    simp [h1, h2, h3]
  · simp [h]

theorem pairValue_range (u v : Nat) (hu : isLead u = true) (hv : isTrail v = true) :
    0x10000 ≤ pairValue u v ∧ pairValue u v < 0x110000 := by
  simp only [isLead, isTrail, Bool.and_eq_true, decide_eq_true_eq] at hu hv
  unfold pairValue
  omega

/-- every code point of a list of 16-bit units is below 0x110000, and a surrogate only when unpaired -/
theorem codePoints_lt : ∀ (us : List Nat), (∀ u ∈ us, u < 0x10000) → ∀ c ∈ codePoints us, c < 0x110000
  | [], _, c, hc => by simp [codePoints] at hc
  | [u], h, c, hc => by
    simp [codePoints] at hc
    have := h u (by simp)
    omega
  | u :: v :: rest, h, c, hc => by
    unfold codePoints at hc
    split at hc
    · rename_i hp
      simp only [Bool.and_eq_true] at hp
      simp only [List.mem_cons] at hc
      cases hc with
      | inl h1 => rw [h1]; exact (pairValue_range u v hp.1 hp.2).2
      | inr h2 => exact codePoints_lt rest (fun x hx => h x (by simp [hx])) c h2
    · simp only [List.mem_cons] at hc
      cases hc with
      | inl h1 => have := h u (by simp); omega
      | inr h2 => exact codePoints_lt (v :: rest) (fun x hx => h x (List.mem_cons_of_mem _ hx)) c h2

theorem scalarOf_isScalar (c : Nat) (h : c < 0x110000) : isScalar (scalarOf c) := by
  unfold scalarOf isScalar
  by_cases hs : (0xD800 ≤ c && c ≤ 0xDFFF) = true
  · simp only [hs, if_true]; omega
  · simp only [hs]
    simp only [Bool.and_eq_true, decide_eq_true_eq] at hs
    simp only [Bool.false_eq_true, if_false]
    omega

theorem cpLen_pos (c : Nat) : 1 ≤ cpLen c := by unfold cpLen; split <;> (try split) <;> (try split) <;> omega
theorem cpLen_le4 (c : Nat) : cpLen c ≤ 4 := by unfold cpLen; split <;> (try split) <;> (try split) <;> omega
theorem cpLen_le3 (c : Nat) (h : c < 0x10000) : cpLen c ≤ 3 := by unfold cpLen; split <;> (try split) <;> (try split) <;> omega


end DiplomatModel.JsStr
