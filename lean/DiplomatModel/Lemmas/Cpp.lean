import DiplomatModel.Sexp
namespace DiplomatModel

theorem optMapM_length {α β : Type} (f : α → Option β) (ps : List α) (cs : List β)
    (h : optMapM f ps = some cs) : cs.length = ps.length := by
  induction ps generalizing cs with
  | nil => simp [optMapM] at h; subst h; rfl
  | cons p ps ih =>
    simp only [optMapM] at h
    cases hp : f p with
    | none => simp [hp] at h
    | some c =>
      cases hr : optMapM f ps with
      | none => simp [hp, hr] at h
      | some r =>
        simp [hp, hr] at h
        subst h
        simp [ih r hr]

theorem filter_partition_length {α : Type} (p q : α → Bool) (l : List α) (h : ∀ x, q x = !p x) :
    (l.filter p).length + (l.filter q).length = l.length := by
  induction l with
  | nil => rfl
  | cons x xs ih =>
    simp only [List.filter_cons, h x]
    cases p x <;> simp <;> omega

end DiplomatModel
