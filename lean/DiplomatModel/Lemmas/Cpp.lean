import DiplomatModel.Sexp
import DiplomatModel.CppMethod
namespace DiplomatModel

theorem optMapM_length {α β : Type} (f : α → Option β) (ps : List α) (cs : List β)
    (h : optMapM f ps = some cs) : cs.length = ps.length := by
  induction ps generalizing cs with
  | nil => simp [optMapM] at h; subst h; rfl
  | cons p ps ih =>
    simp only [optMapM] at h
    cases hp : f p with
    | none => simp [hp] at h
    | some c =>
      cases hr : optMapM f ps with
      | none => simp [hp, hr] at h
      | some r =>
        simp [hp, hr] at h
        subst h
        simp [ih r hr]

theorem filter_partition_length {α : Type} (p q : α → Bool) (l : List α) (h : ∀ x, q x = !p x) :
    (l.filter p).length + (l.filter q).length = l.length := by
  induction l with
  | nil => rfl
  | cons x xs ih =>
    simp only [List.filter_cons, h x]
    cases p x <;> simp <;> omega

open DiplomatModel.Lower DiplomatModel.AbiGen DiplomatModel.CppMethod in
/-- with at most one write parameter, the declared parameters plus the write buffer are the method's parameters -/
theorem params_split (m : AMethod)
    (hw : (m.params.filter fun p => match p.2 with | .write => true | _ => false).length ≤ 1) :
    (cppParams m).length + (if hasWriteParam m then 1 else 0) = m.params.length := by
  have h4 : (cppParams m).length + (m.params.filter fun p => match p.2 with | .write => true | _ => false).length
      = m.params.length := by
    unfold cppParams
    apply filter_partition_length
    intro p
    cases p.2 <;> rfl
  have h5 : hasWriteParam m = true ↔ 1 ≤ (m.params.filter fun p => match p.2 with | .write => true | _ => false).length := by
    unfold hasWriteParam
    rw [List.any_eq_true]
    constructor
    · rintro ⟨p, hp, hq⟩
      exact List.length_pos_of_mem (List.mem_filter.mpr ⟨hp, hq⟩)
    · intro h
      obtain ⟨p, hp⟩ := List.exists_mem_of_length_pos h
      exact ⟨p, (List.mem_filter.mp hp).1, (List.mem_filter.mp hp).2⟩
  generalize (m.params.filter fun p => match p.2 with | .write => true | _ => false).length = w at hw h4 h5
  cases hwp : hasWriteParam m with
  | true => have := h5.mp hwp; simp; omega
  | false =>
    have : ¬ 1 ≤ w := fun h => by simp [h5.mpr h] at hwp
    simp; omega

end DiplomatModel
