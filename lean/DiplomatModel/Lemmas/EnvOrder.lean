import DiplomatModel.EnvOrder
namespace DiplomatModel.EnvOrder
open Std

section Map
variable {K V : Type} [Ord K] [TransOrd K] [LawfulEqOrd K]

/-- strictly increasing keys -/
def Sorted (l : List (K × V)) : Prop := (l.map (·.1)).Pairwise (fun a b => compare a b = .lt)

theorem sorted_nil : Sorted ([] : List (K × V)) := by simp [Sorted]

theorem sorted_cons {k : K} {v : V} {tl : List (K × V)} :
    Sorted ((k, v) :: tl) ↔ (∀ x ∈ tl, compare k x.1 = .lt) ∧ Sorted tl := by
  simp [Sorted, List.pairwise_cons]

theorem cmp_eq_iff {a b : K} : compare a b = .eq ↔ a = b := LawfulEqCmp.compare_eq_iff_eq

theorem find_ins (k k' : K) (v : V) (l : List (K × V)) :
    find k' (ins k v l) = if compare k' k = .eq then some v else find k' l := by
  induction l with
  | nil =>
    simp only [ins, find]
    cases h : compare k' k <;> simp
  | cons hd tl ih =>
    obtain ⟨k1, v1⟩ := hd
    simp only [ins]
    cases h : compare k k1 with
    | lt =>
      simp only [find]
      cases h2 : compare k' k <;> simp
    | eq =>
      have hk : k = k1 := cmp_eq_iff.mp h
      subst hk
      simp only [find]
      cases h2 : compare k' k <;> simp
    | gt =>
      simp only [find, ih]
      cases h2 : compare k' k1 with
      | eq =>
        have hk : k' = k1 := cmp_eq_iff.mp h2
        subst hk
        have hlt : compare k' k = .lt := OrientedCmp.lt_of_gt h
        simp [hlt]
      | lt => simp
      | gt => simp

theorem mem_ins {k : K} {v : V} {l : List (K × V)} {x : K × V} (hx : x ∈ ins k v l) :
    x = (k, v) ∨ x ∈ l := by
  induction l with
  | nil => simp [ins] at hx; exact Or.inl hx
  | cons hd tl ih =>
    obtain ⟨k1, v1⟩ := hd
    simp only [ins] at hx
    cases h : compare k k1 with
    | lt => simp only [h, List.mem_cons] at hx; rcases hx with h1 | h1 | h1 <;> simp [h1]
    | eq => simp only [h, List.mem_cons] at hx; rcases hx with h1 | h1 <;> simp [h1]
    | gt =>
      simp only [h, List.mem_cons] at hx
      rcases hx with h1 | h1
      · simp [h1]
      · rcases ih h1 with h2 | h2 <;> simp [h2]

theorem sorted_ins {k : K} {v : V} {l : List (K × V)} (hs : Sorted l) : Sorted (ins k v l) := by
  induction l with
  | nil => simp [ins, Sorted]
  | cons hd tl ih =>
    obtain ⟨k1, v1⟩ := hd
    rw [sorted_cons] at hs
    simp only [ins]
    cases h : compare k k1 with
    | lt =>
      simp only
      rw [sorted_cons]
      refine ⟨?_, sorted_cons.mpr hs⟩
      intro x hx
      rcases List.mem_cons.mp hx with h1 | h1
      · subst h1; exact h
      · exact TransCmp.lt_trans h (hs.1 x h1)
    | eq =>
      have hk : k = k1 := cmp_eq_iff.mp h
      subst hk
      exact sorted_cons.mpr hs
    | gt =>
      simp only
      rw [sorted_cons]
      refine ⟨?_, ih hs.2⟩
      intro x hx
      rcases mem_ins hx with h1 | h1
      · subst h1; exact OrientedCmp.lt_of_gt h
      · exact hs.1 x h1

theorem upd_keys {k : K} {f : V → V} {l l' : List (K × V)} (h : upd k f l = some l') :
    l'.map (·.1) = l.map (·.1) := by
  induction l generalizing l' with
  | nil => simp [upd] at h
  | cons hd tl ih =>
    obtain ⟨k1, v1⟩ := hd
    simp only [upd] at h
    cases hc : compare k k1 with
    | eq => simp only [hc, Option.some.injEq] at h; subst h; simp
    | lt =>
      simp only [hc] at h
      cases hu : upd k f tl with
      | none => simp [hu] at h
      | some t' => simp only [hu, Option.map_some, Option.some.injEq] at h; subst h; simp [ih hu]
    | gt =>
      simp only [hc] at h
      cases hu : upd k f tl with
      | none => simp [hu] at h
      | some t' => simp only [hu, Option.map_some, Option.some.injEq] at h; subst h; simp [ih hu]

theorem sorted_upd {k : K} {f : V → V} {l l' : List (K × V)} (hs : Sorted l) (h : upd k f l = some l') :
    Sorted l' := by
  unfold Sorted at *
  rw [upd_keys h]; exact hs

theorem find_upd {k : K} {f : V → V} {l l' : List (K × V)} (h : upd k f l = some l') (k' : K) :
    find k' l' = if compare k' k = .eq then (find k' l).map f else find k' l := by
  induction l generalizing l' with
  | nil => simp [upd] at h
  | cons hd tl ih =>
    obtain ⟨k1, v1⟩ := hd
    simp only [upd] at h
    cases hc : compare k k1 with
    | eq =>
      have hk : k = k1 := cmp_eq_iff.mp hc
      subst hk
      simp only [hc, Option.some.injEq] at h; subst h
      simp only [find]
      cases h2 : compare k' k <;> simp
    | lt =>
      simp only [hc] at h
      cases hu : upd k f tl with
      | none => simp [hu] at h
      | some t' =>
        simp only [hu, Option.map_some, Option.some.injEq] at h; subst h
        simp only [find, ih hu]
        cases h2 : compare k' k1 with
        | eq =>
          have hk : k' = k1 := cmp_eq_iff.mp h2
          subst hk
          have hgt : compare k' k = .gt := OrientedCmp.gt_of_lt hc
          simp [hgt]
        | lt => simp
        | gt => simp
    | gt =>
      simp only [hc] at h
      cases hu : upd k f tl with
      | none => simp [hu] at h
      | some t' =>
        simp only [hu, Option.map_some, Option.some.injEq] at h; subst h
        simp only [find, ih hu]
        cases h2 : compare k' k1 with
        | eq =>
          have hk : k' = k1 := cmp_eq_iff.mp h2
          subst hk
          have hlt : compare k' k = .lt := OrientedCmp.lt_of_gt hc
          simp [hlt]
        | lt => simp
        | gt => simp

theorem upd_isSome (k : K) (f : V → V) (l : List (K × V)) : (upd k f l).isSome = (find k l).isSome := by
  induction l with
  | nil => simp [upd, find]
  | cons hd tl ih =>
    obtain ⟨k1, v1⟩ := hd
    simp only [upd, find]
    cases hc : compare k k1 <;> simp [ih]

theorem find_none_of_lt {k : K} {l : List (K × V)} (h : ∀ x ∈ l, compare k x.1 = .lt) : find k l = none := by
  induction l with
  | nil => simp [find]
  | cons hd tl ih =>
    obtain ⟨k1, v1⟩ := hd
    have h1 := h (k1, v1) (by simp)
    simp only at h1
    simp only [find, h1]
    exact ih fun x hx => h x (List.mem_cons_of_mem _ hx)

/-- a sorted map is determined by its lookups -/
theorem sorted_ext {l1 l2 : List (K × V)} (h1 : Sorted l1) (h2 : Sorted l2)
    (h : ∀ k, find k l1 = find k l2) : l1 = l2 := by
  induction l1 generalizing l2 with
  | nil =>
    cases l2 with
    | nil => rfl
    | cons hd tl =>
      obtain ⟨k2, v2⟩ := hd
      have := h k2
      simp [find, ReflCmp.compare_self] at this
  | cons hd1 t1 ih =>
    obtain ⟨k1, v1⟩ := hd1
    cases l2 with
    | nil =>
      have := h k1
      simp [find, ReflCmp.compare_self] at this
    | cons hd2 t2 =>
      obtain ⟨k2, v2⟩ := hd2
      rw [sorted_cons] at h1 h2
      have hk : k1 = k2 := by
        cases hc : compare k1 k2 with
        | eq => exact cmp_eq_iff.mp hc
        | lt =>
          have := h k1
          rw [find_none_of_lt (l := (k2, v2) :: t2)] at this
          · simp [find, ReflCmp.compare_self] at this
          · intro x hx
            rcases List.mem_cons.mp hx with hx | hx
            · subst hx; exact hc
            · exact TransCmp.lt_trans hc (h2.1 x hx)
        | gt =>
          have hlt := OrientedCmp.lt_of_gt hc
          have := h k2
          rw [find_none_of_lt (l := (k1, v1) :: t1)] at this
          · simp [find, ReflCmp.compare_self] at this
          · intro x hx
            rcases List.mem_cons.mp hx with hx | hx
            · subst hx; exact hlt
            · exact TransCmp.lt_trans hlt (h1.1 x hx)
      subst hk
      have hv : v1 = v2 := by
        have := h k1
        simpa [find, ReflCmp.compare_self] using this
      subst hv
      have ht : t1 = t2 := by
        apply ih h1.2 h2.2
        intro k
        cases hc : compare k k1 with
        | eq =>
          have hk : k = k1 := cmp_eq_iff.mp hc
          subst hk
          rw [find_none_of_lt h1.1, find_none_of_lt h2.1]
        | lt => have := h k; simpa [find, hc] using this
        | gt => have := h k; simpa [find, hc] using this
      rw [ht]

end Map

end DiplomatModel.EnvOrder

namespace DiplomatModel.EnvOrder
open Std

/-! ### per-name view of `Module::from_syn` -/

def Item.about (n : String) : Item → Bool
  | .ty n' _ => n == n'
  | .impl n' _ => n == n'
  | .other => false

def addMethods (ms : List String) (e : Entry) : Entry := { e with methods := e.methods ++ ms }

/-- what one item does to the entry of type `n` -/
def projStep (n : String) (cur : Option Entry) : Item → Option Entry
  | .ty n' d => if n = n' then some ⟨d, []⟩ else cur
  | .impl n' ms => if n = n' then cur.map (addMethods ms) else cur
  | .other => cur

def proj (n : String) (cur : Option Entry) (items : List Item) : Option Entry := items.foldl (projStep n) cur

theorem str_cmp_eq (a b : String) : (compare a b = .eq) = (a = b) := propext cmp_eq_iff

theorem stepItem_find {m m' : TypeMap} {i : Item} (h : stepItem m i = some m') (n : String) :
    find n m' = projStep n (find n m) i := by
  cases i with
  | ty n' d =>
    simp only [stepItem, Option.some.injEq] at h; subst h
    simp only [find_ins, projStep, str_cmp_eq]
  | impl n' ms =>
    simp only [stepItem] at h
    have := find_upd h n
    simp only [str_cmp_eq] at this
    rw [this]
    simp only [projStep]
    split
    · rename_i he; subst he; rfl
    · rfl
  | other => simp only [stepItem, Option.some.injEq] at h; subst h; rfl

theorem stepItem_sorted {m m' : TypeMap} {i : Item} (hs : Sorted m) (h : stepItem m i = some m') : Sorted m' := by
  cases i with
  | ty n' d => simp only [stepItem, Option.some.injEq] at h; subst h; exact sorted_ins hs
  | impl n' ms => simp only [stepItem] at h; exact sorted_upd hs h
  | other => simp only [stepItem, Option.some.injEq] at h; subst h; exact hs

theorem runItems_find {m m' : TypeMap} {items : List Item} (h : runItems m items = some m') (n : String) :
    find n m' = proj n (find n m) items := by
  induction items generalizing m with
  | nil => simp only [runItems, Option.some.injEq] at h; subst h; rfl
  | cons i is ih =>
    simp only [runItems] at h
    cases hs : stepItem m i with
    | none => simp [hs] at h
    | some m1 =>
      simp only [hs] at h
      rw [ih h, stepItem_find hs n]
      rfl

theorem runItems_sorted {m m' : TypeMap} {items : List Item} (hs : Sorted m) (h : runItems m items = some m') :
    Sorted m' := by
  induction items generalizing m with
  | nil => simp only [runItems, Option.some.injEq] at h; subst h; exact hs
  | cons i is ih =>
    simp only [runItems] at h
    cases hst : stepItem m i with
    | none => simp [hst] at h
    | some m1 => simp only [hst] at h; exact ih (stepItem_sorted hs hst) h

theorem projStep_not_about {n : String} {i : Item} (h : i.about n = false) (cur : Option Entry) :
    projStep n cur i = cur := by
  cases i with
  | ty n' d => simp only [Item.about, beq_eq_false_iff_ne, ne_eq] at h; simp [projStep, h]
  | impl n' ms => simp only [Item.about, beq_eq_false_iff_ne, ne_eq] at h; simp [projStep, h]
  | other => rfl

theorem proj_filter (n : String) (cur : Option Entry) (items : List Item) :
    proj n cur items = proj n cur (items.filter (Item.about n)) := by
  induction items generalizing cur with
  | nil => rfl
  | cons i is ih =>
    cases h : i.about n with
    | true =>
      simp only [proj, List.foldl_cons, List.filter_cons, h, if_true]
      exact ih _
    | false =>
      have hp := projStep_not_about h cur
      simp only [proj, List.foldl_cons, List.filter_cons, h, hp]
      exact ih _

/-! ### when does `from_syn` panic: also a per-name matter -/

def failsFor (n : String) : Bool → List Item → Bool
  | _, [] => false
  | p, .ty n' _ :: is => failsFor n (p || n == n') is
  | p, .impl n' _ :: is => (n == n' && !p) || failsFor n p is
  | p, .other :: is => failsFor n p is

theorem failsFor_filter (n : String) (p : Bool) (items : List Item) :
    failsFor n p items = failsFor n p (items.filter (Item.about n)) := by
  induction items generalizing p with
  | nil => rfl
  | cons i is ih =>
    cases i with
    | ty n' d =>
      cases h : (n == n') with
      | true => simp only [List.filter_cons, Item.about, h, if_true, failsFor]; exact ih _
      | false => simp only [List.filter_cons, Item.about, h, failsFor, Bool.or_false]; exact ih _
    | impl n' ms =>
      cases h : (n == n') with
      | true => simp only [List.filter_cons, Item.about, h, if_true, failsFor]; rw [ih]
      | false => simp only [List.filter_cons, Item.about, h, failsFor, Bool.false_and, Bool.false_or]; exact ih _
    | other => simp only [List.filter_cons, Item.about, failsFor]; exact ih _

theorem runItems_none_iff (m : TypeMap) (items : List Item) :
    runItems m items = none ↔ ∃ n, failsFor n (find n m).isSome items = true := by
  induction items generalizing m with
  | nil => simp [runItems, failsFor]
  | cons i is ih =>
    cases i with
    | ty n' d =>
      simp only [runItems, stepItem, failsFor]
      rw [ih]
      constructor <;> rintro ⟨n, hn⟩ <;> refine ⟨n, ?_⟩
      · simp only [find_ins, str_cmp_eq] at hn
        by_cases he : n = n'
        · subst he; simpa using hn
        · have hb : (n == n') = false := by simp [he]
          simpa [he, hb] using hn
      · simp only [find_ins, str_cmp_eq]
        by_cases he : n = n'
        · subst he; simpa using hn
        · have hb : (n == n') = false := by simp [he]
          simpa [he, hb] using hn
    | impl n' ms =>
      simp only [runItems, stepItem, failsFor]
      cases hu : upd n' (fun e => { e with methods := e.methods ++ ms }) m with
      | none =>
        simp only [true_iff]
        refine ⟨n', ?_⟩
        have := upd_isSome n' (fun e : Entry => { e with methods := e.methods ++ ms }) m
        rw [hu] at this
        simp only [Option.isSome_none] at this
        simp [← this]
      | some m1 =>
        simp only
        rw [ih]
        have hp : (find n' m).isSome = true := by
          have := upd_isSome n' (fun e : Entry => { e with methods := e.methods ++ ms }) m
          rw [hu] at this; simpa using this.symm
        have hfind : ∀ n, (find n m1).isSome = (find n m).isSome := by
          intro n
          rw [find_upd hu n]
          split <;> simp
        constructor <;> rintro ⟨n, hn⟩ <;> refine ⟨n, ?_⟩
        · rw [hfind] at hn; simp [hn]
        · rw [hfind]
          simp only [Bool.or_eq_true, Bool.and_eq_true, Bool.not_eq_true', beq_iff_eq] at hn
          rcases hn with ⟨he, hnp⟩ | hn
          · subst he; rw [hp] at hnp; cases hnp
          · exact hn
    | other => simp only [runItems, stepItem, failsFor]; exact ih m

/-! ### the file level -/

def Top.about (n : String) : Top → Bool
  | .bridge n' _ => n == n'
  | .plain n' => n == n'
  | .other => false

def projTopStep (n : String) (cur : Option TypeMap) : Top → Option TypeMap
  | .bridge n' items => if n = n' then fromItems items else cur
  | .plain n' => if n = n' then some [] else cur
  | .other => cur

def projTop (n : String) (cur : Option TypeMap) (tops : List Top) : Option TypeMap := tops.foldl (projTopStep n) cur

def Top.ok : Top → Bool
  | .bridge _ items => (fromItems items).isSome
  | _ => true

theorem stepTop_find {f f' : FileMap} {t : Top} (h : stepTop f t = some f') (n : String) :
    find n f' = projTopStep n (find n f) t := by
  cases t with
  | bridge n' items =>
    simp only [stepTop] at h
    cases hi : fromItems items with
    | none => simp [hi] at h
    | some m =>
      simp only [hi, Option.map_some, Option.some.injEq] at h; subst h
      simp only [find_ins, projTopStep, str_cmp_eq, hi]
  | plain n' =>
    simp only [stepTop, Option.some.injEq] at h; subst h
    simp only [find_ins, projTopStep, str_cmp_eq]
  | other => simp only [stepTop, Option.some.injEq] at h; subst h; rfl

theorem stepTop_sorted {f f' : FileMap} {t : Top} (hs : Sorted f) (h : stepTop f t = some f') : Sorted f' := by
  cases t with
  | bridge n' items =>
    simp only [stepTop] at h
    cases hi : fromItems items with
    | none => simp [hi] at h
    | some m => simp only [hi, Option.map_some, Option.some.injEq] at h; subst h; exact sorted_ins hs
  | plain n' => simp only [stepTop, Option.some.injEq] at h; subst h; exact sorted_ins hs
  | other => simp only [stepTop, Option.some.injEq] at h; subst h; exact hs

theorem runTops_find {f f' : FileMap} {tops : List Top} (h : runTops f tops = some f') (n : String) :
    find n f' = projTop n (find n f) tops := by
  induction tops generalizing f with
  | nil => simp only [runTops, Option.some.injEq] at h; subst h; rfl
  | cons t ts ih =>
    simp only [runTops] at h
    cases hs : stepTop f t with
    | none => simp [hs] at h
    | some f1 => simp only [hs] at h; rw [ih h, stepTop_find hs n]; rfl

theorem runTops_sorted {f f' : FileMap} {tops : List Top} (hs : Sorted f) (h : runTops f tops = some f') : Sorted f' := by
  induction tops generalizing f with
  | nil => simp only [runTops, Option.some.injEq] at h; subst h; exact hs
  | cons t ts ih =>
    simp only [runTops] at h
    cases hst : stepTop f t with
    | none => simp [hst] at h
    | some f1 => simp only [hst] at h; exact ih (stepTop_sorted hs hst) h

theorem runTops_isSome (f : FileMap) (tops : List Top) : (runTops f tops).isSome = tops.all Top.ok := by
  induction tops generalizing f with
  | nil => simp [runTops]
  | cons t ts ih =>
    simp only [runTops, List.all_cons]
    cases t with
    | bridge n' items =>
      simp only [stepTop, Top.ok]
      cases hi : fromItems items with
      | none => simp
      | some m => simp [ih]
    | plain n' => simp [stepTop, Top.ok, ih]
    | other => simp [stepTop, Top.ok, ih]

theorem projTopStep_not_about {n : String} {t : Top} (h : t.about n = false) (cur : Option TypeMap) :
    projTopStep n cur t = cur := by
  cases t with
  | bridge n' items => simp only [Top.about, beq_eq_false_iff_ne, ne_eq] at h; simp [projTopStep, h]
  | plain n' => simp only [Top.about, beq_eq_false_iff_ne, ne_eq] at h; simp [projTopStep, h]
  | other => rfl

theorem projTop_filter (n : String) (cur : Option TypeMap) (tops : List Top) :
    projTop n cur tops = projTop n cur (tops.filter (Top.about n)) := by
  induction tops generalizing cur with
  | nil => rfl
  | cons t ts ih =>
    cases h : t.about n with
    | true =>
      simp only [projTop, List.foldl_cons, List.filter_cons, h, if_true]
      exact ih _
    | false =>
      have hp := projTopStep_not_about h cur
      simp only [projTop, List.foldl_cons, List.filter_cons, h, hp]
      exact ih _

end DiplomatModel.EnvOrder
