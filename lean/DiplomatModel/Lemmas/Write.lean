import DiplomatModel.Write
namespace DiplomatModel.Write

/-- `len ≤ cap ≤ physical size` -/
structure Inv (w : W) : Prop where
  lenCap : w.len ≤ w.cap
  capPhys : w.cap ≤ w.buf.length

def StoresOk (w : W) : Prop := ∀ e ∈ w.stores, e.1 < e.2

theorem copyAt_length (buf : List Nat) (a : Nat) (c : List Nat) : (copyAt buf a c).length = buf.length := by
  induction c generalizing buf a with
  | nil => rfl
  | cons b bs ih => simp [copyAt, ih]

theorem take_set_succ (buf : List Nat) (a b : Nat) (h : a < buf.length) :
    (buf.set a b).take (a + 1) = buf.take a ++ [b] := by
  induction buf generalizing a with
  | nil => simp at h
  | cons x xs ih =>
    cases a with
    | zero => simp
    | succ j => simp at h; simp [ih j h]

theorem drop_set_succ (buf : List Nat) (a b n : Nat) :
    (buf.set a b).drop (a + 1 + n) = buf.drop (a + 1 + n) := by
  induction buf generalizing a with
  | nil => simp
  | cons x xs ih =>
    cases a with
    | zero => simp [show 0 + 1 + n = n + 1 by omega]
    | succ j =>
      have e : j + 1 + 1 + n = (j + 1 + n) + 1 := by omega
      simp only [List.set_cons_succ, e, List.drop_succ_cons]
      exact ih j

theorem copyAt_spec (buf : List Nat) (a : Nat) (c : List Nat) (h : a + c.length ≤ buf.length) :
    copyAt buf a c = buf.take a ++ c ++ buf.drop (a + c.length) := by
  induction c generalizing buf a with
  | nil => simp [copyAt]
  | cons b bs ih =>
    simp only [copyAt, List.length_cons] at h ⊢
    have hl : a < buf.length := by omega
    rw [ih (buf.set a b) (a + 1) (by simp; omega)]
    have e1 : (buf.set a b).take (a + 1) = buf.take a ++ [b] := take_set_succ buf a b hl
    have e2 : (buf.set a b).drop (a + 1 + bs.length) = buf.drop (a + (bs.length + 1)) := by
      rw [drop_set_succ]; congr 1; omega
    rw [e1, e2]; simp

theorem contents_copyChunk (w : W) (c : List Nat) (hi : Inv w) (h : w.len + c.length ≤ w.cap) :
    contents (copyChunk w c) = contents w ++ c := by
  have hp := hi.capPhys
  unfold contents copyChunk
  simp only
  rw [copyAt_spec _ _ _ (by omega)]
  have : (List.take w.len w.buf ++ c).length = w.len + c.length := by
    simp [Nat.min_eq_left (show w.len ≤ w.buf.length by omega)]
  rw [List.take_append_of_le_length (by omega)]
  rw [List.take_of_length_le (by omega)]

theorem inv_copyChunk (w : W) (c : List Nat) (hi : Inv w) (h : w.len + c.length ≤ w.cap) :
    Inv (copyChunk w c) := by
  constructor
  · simpa [copyChunk] using h
  · simpa [copyChunk, copyAt_length] using hi.capPhys

theorem stores_copyChunk (w : W) (c : List Nat) (hs : StoresOk w) (h : w.len + c.length ≤ w.cap) :
    StoresOk (copyChunk w c) := by
  intro e he
  simp only [copyChunk, List.mem_append, storeEvents, List.mem_map, List.mem_range] at he
  rcases he with he | ⟨k, hk, rfl⟩
  · exact hs e he
  · simp; omega

theorem inv_grown (w : W) (r e : Nat) (hi : Inv w) (hr : w.len ≤ r) : Inv (grown w r e) := by
  have := hi.lenCap; have := hi.capPhys
  constructor
  · simp [grown]; omega
  · simp [grown, Nat.min_eq_left (show w.len ≤ w.buf.length by omega)]; omega

theorem contents_grown (w : W) (r e : Nat) (hi : Inv w) : contents (grown w r e) = contents w := by
  have := hi.lenCap; have := hi.capPhys
  unfold contents grown
  rw [List.take_append_of_le_length (by simp; omega)]
  simp [List.take_take]

/-- everything one `write_str` guarantees -/
theorem writeStr_spec (w : W) (c : List Nat) (g : Option Nat) (hi : Inv w) (hs : StoresOk w) :
    let r := writeStr w c g
    Inv r.1 ∧ StoresOk r.1
      ∧ contents r.1 = contents w ++ (if r.2.1 then c else [])
      ∧ (r.2.1 = false → r.1.failed = true)
      ∧ (r.2.1 = true → r.1.failed = false ∧ w.failed = false) := by
  unfold writeStr
  by_cases hf : w.failed = true
  · simp [hf, hi, hs]
  · have hf' : w.failed = false := by simpa using hf
    simp only [hf', Bool.false_eq_true, if_false]
    by_cases hn : w.len + c.length > w.cap
    · rw [if_pos hn]
      cases g with
      | none => exact ⟨⟨hi.lenCap, hi.capPhys⟩, hs, by simp [contents], by simp, by simp⟩
      | some e =>
        have hig := inv_grown w (w.len + c.length) e hi (by omega)
        have hle : (grown w (w.len + c.length) e).len + c.length ≤ (grown w (w.len + c.length) e).cap := by
          simp [grown]
        refine ⟨inv_copyChunk _ _ hig hle, stores_copyChunk _ _ (by simpa [grown, StoresOk] using hs) hle, ?_, by simp, ?_⟩
        · rw [contents_copyChunk _ _ hig hle, contents_grown _ _ _ hi]; simp
        · simp [copyChunk, grown, hf']
    · rw [if_neg hn]
      have hle : w.len + c.length ≤ w.cap := by omega
      refine ⟨inv_copyChunk _ _ hi hle, stores_copyChunk _ _ hs hle, ?_, by simp, ?_⟩
      · rw [contents_copyChunk _ _ hi hle]; simp
      · simp [copyChunk, hf']

theorem run_failed (d : Option Nat) (w : W) (cs : List (List Nat)) (gs : List (Option Nat))
    (hf : w.failed = true) : run d w cs gs = (w, List.replicate cs.length false) := by
  induction cs generalizing gs with
  | nil => simp [run]
  | cons c cs ih =>
    simp only [run, writeStr, hf, if_true, Bool.false_eq_true, if_false]
    rw [ih gs]
    simp [List.replicate_succ]

/-- the main induction: outcomes are a run of `true`s followed by `false`s, the contents are the
    initial contents plus exactly the written chunks, invariants hold at the end -/
theorem run_spec (d : Option Nat) (w : W) (cs : List (List Nat)) (gs : List (Option Nat))
    (hi : Inv w) (hs : StoresOk w) :
    ∃ k, k ≤ cs.length
      ∧ (run d w cs gs).2 = List.replicate k true ++ List.replicate (cs.length - k) false
      ∧ contents (run d w cs gs).1 = contents w ++ (cs.take k).flatten
      ∧ (k < cs.length → (run d w cs gs).1.failed = true)
      ∧ (w.failed = true → k = 0)
      ∧ Inv (run d w cs gs).1 ∧ StoresOk (run d w cs gs).1 := by
  induction cs generalizing w gs with
  | nil => exact ⟨0, by simp [run], by simp [run], by simp [run], by simp, by simp, by simpa [run] using hi, by simpa [run] using hs⟩
  | cons c cs ih =>
    simp only [run]
    generalize nextAns d gs = g
    have hw := writeStr_spec w c g hi hs
    simp only at hw
    generalize writeStr w c g = r at hw ⊢
    obtain ⟨w', wrote, asked⟩ := r
    simp only at hw ⊢
    obtain ⟨hi', hs', hc', hnf, hwf⟩ := hw
    cases hwr : wrote with
    | false =>
      have hfail := hnf hwr
      rw [run_failed d w' cs _ hfail]
      refine ⟨0, by simp, by simp [List.replicate_succ], ?_, by simp [hfail], by simp, hi', hs'⟩
      simp [hc', hwr]
    | true =>
      obtain ⟨hnf', hwnf⟩ := hwf hwr
      obtain ⟨k, hk, ho, hcon, hkf, _, hinv, hst⟩ := ih w' (if asked = true then gs.tail else gs) hi' hs'
      refine ⟨k + 1, by simp; omega, ?_, ?_, ?_, by simp [hwnf], hinv, hst⟩
      · simp only [ho, List.length_cons]
        have e : cs.length + 1 - (k + 1) = cs.length - k := by omega
        rw [e, List.replicate_succ, List.cons_append]
      · rw [hcon, hc', hwr]; simp
      · intro h; exact hkf (by simp at h; omega)

/-- with no successful growth available (simple writer) capacity and physical size never change -/
theorem run_nogrow (w : W) (cs : List (List Nat)) :
    (run none w cs []).1.cap = w.cap ∧ (run none w cs []).1.buf.length = w.buf.length := by
  induction cs generalizing w with
  | nil => simp [run]
  | cons c cs ih =>
    simp only [run, List.tail_nil, ite_self, nextAns]
    unfold writeStr
    by_cases hf : w.failed = true
    · simp only [hf, if_true]; exact ih w
    · have hf' : w.failed = false := by simpa using hf
      simp only [hf', Bool.false_eq_true, if_false]
      by_cases hn : w.len + c.length > w.cap
      · simp only [if_pos hn]
        have := ih { w with failed := true }
        simpa using this
      · simp only [if_neg hn]
        have := ih (copyChunk w c)
        simpa [copyChunk, copyAt_length] using this

/-- an infallible `grow` (Rust-owned buffer, C++ `std::string`) never sets the flag -/
theorem run_infallible (e : Nat) (w : W) (cs : List (List Nat)) (hf : w.failed = false) :
    (run (some e) w cs []).1.failed = false := by
  induction cs generalizing w with
  | nil => simpa [run] using hf
  | cons c cs ih =>
    simp only [run, List.tail_nil, ite_self, nextAns]
    unfold writeStr
    simp only [hf, Bool.false_eq_true, if_false]
    by_cases hn : w.len + c.length > w.cap
    · simp only [if_pos hn]; apply ih; simp [copyChunk, grown, hf]
    · simp only [if_neg hn]; apply ih; simp [copyChunk, hf]

end DiplomatModel.Write
