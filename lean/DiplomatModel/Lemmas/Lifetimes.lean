import DiplomatModel.Lifetimes
namespace DiplomatModel.Lifetimes

def Closed (g : Graph) (vis st : List Nat) : Prop :=
  ∀ u ∈ vis, ∀ v ∈ succs g u, v ∈ vis ∨ v ∈ st

theorem dfs_sound (g : Graph) (a : Nat) :
    ∀ f st vis r, dfs g f st vis = some r →
      (∀ x ∈ st, Reach g a x) → (∀ x ∈ vis, Reach g a x) → ∀ x ∈ r, Reach g a x := by
  intro f
  induction f with
  | zero =>
    intro st vis r h hst hvis
    cases st with
    | nil => simp [dfs] at h; subst h; exact hvis
    | cons y ys => simp [dfs] at h
  | succ f ih =>
    intro st vis r h hst hvis
    cases st with
    | nil => simp [dfs] at h; subst h; exact hvis
    | cons y ys =>
      simp only [dfs] at h
      split at h
      · exact ih ys vis r h (fun x hx => hst x (List.mem_cons_of_mem _ hx)) hvis
      · apply ih _ _ r h
        · intro x hx
          rcases List.mem_append.mp hx with hx | hx
          · exact Reach.step (hst y (List.mem_cons_self)) hx
          · exact hst x (List.mem_cons_of_mem _ hx)
        · intro x hx
          rcases List.mem_cons.mp hx with hx | hx
          · subst hx; exact hst _ (List.mem_cons_self)
          · exact hvis x hx

theorem dfs_complete_inv (g : Graph) :
    ∀ f st vis r, dfs g f st vis = some r → Closed g vis st →
      (∀ x ∈ vis, x ∈ r) ∧ (∀ x ∈ st, x ∈ r) ∧ Closed g r [] := by
  intro f
  induction f with
  | zero =>
    intro st vis r h hc
    cases st with
    | nil => simp [dfs] at h; subst h; exact ⟨fun _ h => h, by simp, hc⟩
    | cons y ys => simp [dfs] at h
  | succ f ih =>
    intro st vis r h hc
    cases st with
    | nil => simp [dfs] at h; subst h; exact ⟨fun _ h => h, by simp, hc⟩
    | cons y ys =>
      simp only [dfs] at h
      split at h
      next hy =>
        have hc' : Closed g vis ys := by
          intro u hu v hv
          rcases hc u hu v hv with h1 | h1
          · exact Or.inl h1
          · rcases List.mem_cons.mp h1 with h2 | h2
            · subst h2; exact Or.inl hy
            · exact Or.inr h2
        obtain ⟨h1, h2, h3⟩ := ih ys vis r h hc'
        refine ⟨h1, ?_, h3⟩
        intro x hx
        rcases List.mem_cons.mp hx with hx | hx
        · subst hx; exact h1 _ hy
        · exact h2 x hx
      next hy =>
        have hc' : Closed g (y :: vis) (succs g y ++ ys) := by
          intro u hu v hv
          rcases List.mem_cons.mp hu with hu | hu
          · subst hu; exact Or.inr (List.mem_append_left _ hv)
          · rcases hc u hu v hv with h1 | h1
            · exact Or.inl (List.mem_cons_of_mem _ h1)
            · rcases List.mem_cons.mp h1 with h2 | h2
              · subst h2; exact Or.inl (List.mem_cons_self)
              · exact Or.inr (List.mem_append_right _ h2)
        obtain ⟨h1, h2, h3⟩ := ih _ _ r h hc'
        refine ⟨fun x hx => h1 x (List.mem_cons_of_mem _ hx), ?_, h3⟩
        intro x hx
        rcases List.mem_cons.mp hx with hx | hx
        · subst hx; exact h1 _ (List.mem_cons_self)
        · exact h2 x (List.mem_append_right _ hx)

theorem closed_reach (g : Graph) (r : List Nat) (hc : Closed g r []) (a x : Nat)
    (ha : a ∈ r) (h : Reach g a x) : x ∈ r := by
  induction h with
  | refl => exact ha
  | step _ hs ih =>
    rcases hc _ ih _ hs with h | h
    · exact h
    · simp at h

theorem dfs_spec (g : Graph) (f a : Nat) (r : List Nat) (h : dfs g f [a] [] = some r) (x : Nat) :
    x ∈ r ↔ Reach g a x := by
  constructor
  · intro hx
    exact dfs_sound g a f [a] [] r h (by intro y hy; simp at hy; subst hy; exact Reach.refl _) (by simp) x hx
  · intro hx
    obtain ⟨_, h2, h3⟩ := dfs_complete_inv g f [a] [] r h (by intro u hu; simp at hu)
    exact closed_reach g r h3 a x (h2 a (by simp)) hx

/-! fuel: the potential `|stack| + Σ_{u unvisited} (1 + deg u)` strictly decreases -/

def w (g : Graph) (vis : List Nat) (u : Nat) : Nat :=
  if u ∈ vis then 0 else 1 + (succs g u).length

def W (g : Graph) (vis : List Nat) (l : List Nat) : Nat := (l.map (w g vis)).sum

theorem W_not_mem (g : Graph) (vis : List Nat) (x : Nat) :
    ∀ l, x ∉ l → W g (x :: vis) l = W g vis l := by
  intro l
  induction l with
  | nil => intro _; rfl
  | cons y ys ih =>
    intro hx
    have hxy : y ≠ x := by intro h; apply hx; simp [h]
    have hys : x ∉ ys := by intro h; apply hx; simp [h]
    simp only [W, List.map_cons, List.sum_cons] at *
    rw [ih hys]
    simp [w, hxy]

theorem W_mem (g : Graph) (vis : List Nat) (x : Nat) (hv : x ∉ vis) :
    ∀ l, l.Nodup → x ∈ l → W g (x :: vis) l + (1 + (succs g x).length) = W g vis l := by
  intro l
  induction l with
  | nil => intro _ h; simp at h
  | cons y ys ih =>
    intro hnd hx
    have hnd' := List.nodup_cons.mp hnd
    simp only [W, List.map_cons, List.sum_cons]
    rcases List.mem_cons.mp hx with h | h
    · subst h
      have := W_not_mem g vis x ys hnd'.1
      simp only [W] at this
      rw [this]
      simp [w, hv]
      omega
    · have hne : y ≠ x := by intro e; subst e; exact hnd'.1 h
      have := ih hnd'.2 h
      simp only [W] at this
      have hw : w g (x :: vis) y = w g vis y := by simp [w, hne]
      rw [hw]; omega

def Phi (g : Graph) (st vis : List Nat) : Nat := st.length + W g vis (List.range g.length)

theorem succs_oob (g : Graph) (x : Nat) (h : ¬ x < g.length) : succs g x = [] := by
  simp [succs, List.getD]
  have : g.length ≤ x := by omega
  simp [List.getElem?_eq_none this]

theorem dfs_fuel (g : Graph) : ∀ f st vis, Phi g st vis ≤ f → (dfs g f st vis).isSome := by
  intro f
  induction f with
  | zero =>
    intro st vis h
    cases st with
    | nil => simp [dfs]
    | cons y ys => simp [Phi] at h
  | succ f ih =>
    intro st vis h
    cases st with
    | nil => simp [dfs]
    | cons y ys =>
      simp only [dfs]
      split
      · apply ih; simp [Phi] at *; omega
      next hy =>
        apply ih
        by_cases hlt : y < g.length
        · have := W_mem g vis y hy (List.range g.length) List.nodup_range (List.mem_range.mpr hlt)
          simp [Phi] at *; omega
        · have h1 := W_not_mem g vis y (List.range g.length) (by simp [List.mem_range]; omega)
          have h2 := succs_oob g y hlt
          simp [Phi, h2] at *; omega

theorem fuelFor_eq (g : Graph) : fuelFor g = 1 + W g [] (List.range g.length) := by
  have : (w g []) = fun u => 1 + (succs g u).length := by funext u; simp [w]
  simp [fuelFor, W, this]

theorem allLonger_total (g : Graph) (a : Nat) : ∃ r, dfs g (fuelFor g) [a] [] = some r := by
  have := dfs_fuel g (fuelFor g) [a] [] (by rw [fuelFor_eq]; simp [Phi])
  exact Option.isSome_iff_exists.mp this

end DiplomatModel.Lifetimes
