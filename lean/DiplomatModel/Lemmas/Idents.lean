import DiplomatModel.Idents
namespace DiplomatModel.Idents

theorem stripCommon_spec (bd pd : List String) :
    ∃ c, bd = c ++ (stripCommon bd pd).1 ∧ pd = c ++ (stripCommon bd pd).2 := by
  induction bd generalizing pd with
  | nil => exact ⟨[], by simp [stripCommon]⟩
  | cons b bs ih =>
    cases pd with
    | nil => exact ⟨[], by simp [stripCommon]⟩
    | cons p ps =>
      by_cases h : b = p
      · subst h
        obtain ⟨c, h1, h2⟩ := ih ps
        refine ⟨b :: c, ?_, ?_⟩
        · simp only [stripCommon, if_true, List.cons_append]; rw [← h1]
        · simp only [stripCommon, if_true, List.cons_append]; rw [← h2]
      · exact ⟨[], by simp [stripCommon, h]⟩

theorem resolve_plain (d r : List String) (h : ∀ s ∈ r, s ≠ "..") : resolve d r = d ++ r := by
  induction r generalizing d with
  | nil => simp [resolve]
  | cons s rest ih =>
    have hs : s ≠ ".." := h s (by simp)
    simp only [resolve, hs, if_false]
    rw [ih _ (fun x hx => h x (List.mem_cons_of_mem _ hx))]
    simp

theorem resolve_ups_rev (c rb r : List String) :
    resolve (c ++ rb.reverse) (List.replicate rb.length ".." ++ r) = resolve c r := by
  induction rb generalizing r with
  | nil => simp
  | cons x xs ih =>
    simp only [List.reverse_cons, List.length_cons, List.replicate_succ, List.cons_append, resolve, if_true]
    rw [← List.append_assoc, List.dropLast_concat]
    exact ih r

theorem resolve_ups (c b r : List String) :
    resolve (c ++ b) (List.replicate b.length ".." ++ r) = resolve c r := by
  have := resolve_ups_rev c b.reverse r
  simpa using this

end DiplomatModel.Idents
