/-
  C09 — names and paths in generated code.

  Mirrors
    tool/src/c/formatter.rs     fmt_identifier (a name found in the keyword table of the target language gets a
                                trailing underscore), fmt_param_name (= fmt_identifier, fields and parameters)
    tool/src/js/formatter.rs    fmt_param_name / fmt_method_name (same rule over `RESERVED`)
    tool/src/cpp/header.rs      path_diff (relative include path between two namespaced headers)
-/
import DiplomatModel.Sexp
import DiplomatModel.Generated.Keywords
namespace DiplomatModel.Idents
open DiplomatModel.Generated

def cppKeywords : List String := Keywords.cKeywords ++ Keywords.cppExtra

def fmtIdentifier (kws : List String) (name : String) : String :=
  if kws.contains name then name ++ "_" else name

inductive Lang where | c | cpp | js
  deriving Repr, DecidableEq

def table : Lang → List String
  | .c => Keywords.cKeywords
  | .cpp => cppKeywords
  | .js => Keywords.jsReserved

/-! ### relative include paths (`path_diff`), on path segments -/

def stripCommon : List String → List String → List String × List String
  | b :: bs, p :: ps => if b = p then stripCommon bs ps else (b :: bs, p :: ps)
  | bs, ps => (bs, ps)

/-- the include path from a header in directory `bd` to `file` in directory `pd` -/
def pathDiff (bd pd : List String) (file : String) : List String :=
  List.replicate (stripCommon bd pd).1.length ".." ++ (stripCommon bd pd).2 ++ [file]

/-- how a compiler resolves a relative include against the including file's directory -/
def resolve (dir : List String) : List String → List String
  | [] => dir
  | s :: rest => if s = ".." then resolve dir.dropLast rest else resolve (dir ++ [s]) rest

/-! ### driver -/

def splitPath (p : String) : List String × String :=
  let segs := p.splitOn "/"
  (segs.dropLast, segs.getLast?.getD "")

/-- `(ident LANG NAME)` → formatted name; `(pathdiff BASE PATH)` → relative include path -/
def runLine (line : String) : String :=
  match Sexp.parse line with
  | some (.list [.atom "ident", .atom lang, .atom name]) =>
    match lang with
    | "c" => fmtIdentifier (table .c) name
    | "cpp" => fmtIdentifier (table .cpp) name
    | "js" => fmtIdentifier (table .js) name
    | _ => "bad-case"
  | some (.list [.atom "pathdiff", .atom base, .atom path]) =>
    let (bd, _) := splitPath base
    let (pd, f) := splitPath path
    "/".intercalate (pathDiff bd pd f)
  | _ => "bad-case"

end DiplomatModel.Idents
