/-
  C07 — tool/src/kotlin/mod.rs `gen_native_method_info`: the JNA declaration `fun <abi>(…): …` of every exported
  method (`gen_native_type_name` for parameters, `gen_type_name_ffi` / `gen_return_type_name_ffi` for the result,
  the receiver as `handle` / `nativeStruct` / `inner`, the write buffer as a trailing `Pointer`).  Compared as text
  with the `interface …Lib : Library` block of the generated `.kt` (harness c07 `kotlin-native-signature`).
-/
import DiplomatModel.DartKt
import DiplomatModel.CppMethod
namespace DiplomatModel.KtNative
open DiplomatModel.Lower DiplomatModel.AbiGen DiplomatModel.DartKt DiplomatModel.CppMethod

/-- `fmt_primitive_type_native`: as `fmt_primitive_as_ffi`, except that a returned `bool` is a `Byte` -/
def ktPrimNative (p : Prim) : Option String :=
  match p with
  | .bool => some "Byte"
  | p => ktPrim p

/-- `gen_native_type_name` (parameters) -/
def ktNativeTy (env : Env) : TyName → Option String
  | .prim p => ktPrim p
  | .named n =>
    match env.get n with
    | some (.struct ..) => some (n ++ "Native")
    | some .enumTy => some "Int"
    | _ => none
  | .ref _ _ (.named n) => if isOpaqueName env n then some "Pointer" else none
  | .opt (.ref _ _ (.named n)) _ => if isOpaqueName env n then some "Pointer?" else none
  | .strRef .. => some "Slice"
  | .primSlice .. => some "Slice"
  | .strSlice .. => some "Slice"
  | _ => none

/-- `gen_type_name_ffi` (results) -/
def ktFfiTy (env : Env) : TyName → Option String
  | .prim p => ktPrimNative p
  | .ordering => ktPrimNative .i8
  | .named n =>
    match env.get n with
    | some (.struct ..) => some (n ++ "Native")
    | some .enumTy => some "Int"
    | _ => none
  | .ref _ _ (.named n) => if isOpaqueName env n then some "Pointer" else none
  | .box (.named n) => if isOpaqueName env n then some "Pointer" else none
  | .opt (.ref _ _ (.named n)) _ => if isOpaqueName env n then some "Pointer?" else none
  | .opt (.box (.named n)) _ => if isOpaqueName env n then some "Pointer?" else none
  | .strRef .. => some "Slice"
  | .primSlice .. => some "Slice"
  | .strSlice .. => some "Slice"
  | _ => none

def succFfi (env : Env) : Succ → Option String
  | .unit => some "Unit"
  | .write => some "Unit"
  | .out t => ktFfiTy env t

/-- `gen_return_type_name_ffi` -/
def ktRetTy (env : Env) : Ret → Option String
  | .infallible s => succFfi env s
  | .fallible ok err =>
    match succFfi env ok, (match err with | some e => ktFfiTy env e | none => some "Unit") with
    | some o, some e => some ("Result" ++ o ++ e)
    | _, _ => none
  | .nullable .unit => some "OptionUnit"
  | .nullable .write => some "OptionUnit"
  | .nullable (.out t) =>
    match t with
    | .prim _ => (ktFfiTy env t).map ("Option" ++ ·)
    | .ordering => (ktFfiTy env t).map ("Option" ++ ·)
    | .named _ => (ktFfiTy env t).map ("Option" ++ ·)
    | .strRef .. => some "OptionSlice"
    | .primSlice .. => some "OptionSlice"
    | .strSlice .. => some "OptionSlice"
    | _ => none

/-- the receiver as the native function takes it -/
def ktSelf (env : Env) (owner : String) : Option (List String) :=
  match env.get owner with
  | some .opaqueTy => some ["handle: Pointer"]
  | some (.struct ..) => some ["nativeStruct: " ++ owner ++ "Native"]
  | some .enumTy => some ["inner: Int"]
  | none => none

/-- the parameters of the native function, in order: receiver, parameters, write buffer -/
def ktNativeParams (env : Env) (owner : String) (m : AMethod) : Option (List String) :=
  let selfP : Option (List String) := match m.self with
    | some _ => ktSelf env owner
    | none => some []
  match selfP, optMapM (fun p : String × TyName => (ktNativeTy env p.2).map fun t => p.1 ++ ": " ++ t) (cppParams m) with
  | some a, some b => some (a ++ b ++ (if hasWriteParam m then ["write: Pointer"] else []))
  | _, _ => none

/-- the declaration inside `interface <Owner>Lib : Library` -/
def ktNativeText (env : Env) (pfx owner : String) (m : AMethod) : Option String :=
  match ktNativeParams env owner m, ktRetTy env (retOf (hasWriteParam m) m.ret) with
  | some all, some r => some ("fun " ++ abiName pfx owner m.name ++ "(" ++ ", ".intercalate all ++ "): " ++ r)
  | _, _ => none

/-- `(c07kt PREFIX DECL…)` → `kotlin/Owner.kt => fun …` per method, ` ;; `-separated; methods the model has no
    rendering for (callbacks, shapes outside Kotlin's profile) are left out -/
def runLine (line : String) : String :=
  match Sexp.parse line with
  | some (.list (.atom "c07kt" :: .atom pfx :: ds)) =>
    match optMapM parseDeclA ds with
    | some ds =>
      let env : Env := ds.map fun d => (d.name, d.def_)
      " ;; ".intercalate (ds.flatMap fun d => d.methods.flatMap fun m =>
        match ktNativeText env (if pfx == "-" then "" else pfx) d.name m with
        | some t => ["kotlin/" ++ d.name ++ ".kt => " ++ t]
        | none => [])
    | none => "bad-case"
  | _ => "bad-case"

end DiplomatModel.KtNative
