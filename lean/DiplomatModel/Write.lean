/-
  C12 — runtime/src/write.rs: the `DiplomatWrite` state machine.

  Mirrors `impl fmt::Write for DiplomatWrite::write_str`, `diplomat_simple_write` (+ its `flush`),
  `diplomat_buffer_write_*`, and the C++ `WriteFromString` adaptor (a foreign writer whose `grow`
  grants exactly what is requested).  The buffer is an explicit byte list of physical size `phys`;
  every byte store is recorded as an event `(index, bound)` where `bound` is the capacity (for
  `write_str`) or the physical size (for the NUL written by `flush`) at the time of the store.

  The environment's answer to a `grow(requested)` call is `none` (returns false) or `some extra`
  (new capacity `requested + extra`, old contents copied) — every answer therefore satisfies the
  documented contract "a valid buffer of at least the requested size", and theorems quantify over
  all answer scripts.
-/
import DiplomatModel.Sexp
namespace DiplomatModel.Write

structure W where
  buf : List Nat          -- physical buffer
  len : Nat
  cap : Nat
  failed : Bool           -- grow_failed
  stores : List (Nat × Nat)   -- (index, bound), oldest first
  deriving Repr

/-- `ptr::copy_nonoverlapping(chunk, buf + at, chunk.len)` as individual stores -/
def copyAt (buf : List Nat) (at_ : Nat) : List Nat → List Nat
  | [] => buf
  | b :: bs => copyAt (buf.set at_ b) (at_ + 1) bs

def storeEvents (at_ bound : Nat) (n : Nat) : List (Nat × Nat) :=
  (List.range n).map fun k => (at_ + k, bound)

/-- the foreign `grow(requested)` succeeding with `extra` spare bytes: a new buffer of
    `requested + extra` bytes holding the old contents -/
def grown (w : W) (requested extra : Nat) : W :=
  let nc := requested + extra
  { w with buf := w.buf.take w.len ++ List.replicate (nc - w.len) 0, cap := nc }

def copyChunk (w : W) (chunk : List Nat) : W :=
  { w with buf := copyAt w.buf w.len chunk,
           stores := w.stores ++ storeEvents w.len w.cap chunk.length,
           len := w.len + chunk.length }

/-- One `write_str`.  `g` is the environment's answer *if* `grow` is called.
    Returns the new state, whether the chunk was written, and whether `grow` was called. -/
def writeStr (w : W) (chunk : List Nat) (g : Option Nat) : W × Bool × Bool :=
  if w.failed then (w, false, false)
  else if w.len + chunk.length > w.cap then
    match g with
    | none => ({ w with failed := true }, false, true)
    | some extra => (copyChunk (grown w (w.len + chunk.length) extra) chunk, true, true)
  else (copyChunk w chunk, true, false)

/-- the answer `grow` would get now -/
def nextAns (dflt : Option Nat) : List (Option Nat) → Option Nat
  | [] => dflt
  | a :: _ => a

/-- A sequence of writes; the answer script is consumed only when `grow` is called; when the script is
    exhausted `dflt` answers (simple writer: always `none`; Rust buffer writer: always `some _`). -/
def run (dflt : Option Nat) : W → List (List Nat) → List (Option Nat) → W × List Bool
  | w, [], _ => (w, [])
  | w, c :: cs, gs =>
    let r := writeStr w c (nextAns dflt gs)
    let rest := run dflt r.1 cs (if r.2.2 then gs.tail else gs)
    (rest.1, r.2.1 :: rest.2)

/-- `diplomat_buffer_write_get_bytes` / `_len`: (is_null, len) -/
def accessors (w : W) : Bool × Nat := if w.failed then (true, 0) else (false, w.len)

def contents (w : W) : List Nat := w.buf.take w.len

/-- `diplomat_simple_write(buf, size)`: `cap = size - 1`, grow always fails. -/
def simpleInit (size : Nat) : W := { buf := List.replicate size 0xAA, len := 0, cap := size - 1, failed := false, stores := [] }

/-- simple writer's `flush`: `ptr::write(buf.add(len), 0)` -/
def simpleFlush (w : W) : W :=
  { w with buf := w.buf.set w.len 0, stores := w.stores ++ [(w.len, w.buf.length)] }

/-- a caller-supplied writer (C struct filled in by hand, or C++ `WriteFromString` on a string holding `init`) -/
def foreignInit (init : List Nat) (cap : Nat) : W :=
  { buf := init ++ List.replicate (cap - init.length) 0xAA, len := init.length, cap := cap, failed := false, stores := [] }

/-! ### driver -/

def showBytes (l : List Nat) : String := ",".intercalate (l.map toString)
def showW (w : W) (os : List Bool) : String :=
  s!"len={w.len} cap={w.cap} failed={w.failed} wrote={String.ofList (os.map fun b => if b then '1' else '0')} "
  ++ s!"acc={(accessors w).1},{(accessors w).2} bytes={showBytes (contents w)}"

def parseChunk (s : Sexp) : Option (List Nat) :=
  match s with
  | .list xs => optMapM Sexp.asNat xs
  | _ => none

def parseAns (s : Sexp) : Option (Option Nat) :=
  match s with
  | .atom "f" => some none
  | a => a.asNat.map some

/-- `(foreign CAP (init…) ((chunk…)…) (ans…))`, `(simple SIZE ((chunk…)…))`, `(rust CAP ((chunk…)…))`,
    `(cppstring (init…) ((chunk…)…))` -/
def runLine (line : String) : String :=
  match Sexp.parse line with
  | some (.list [.atom "foreign", cap, init, .list chunks, .list answers]) =>
    match cap.asNat, parseChunk init, optMapM parseChunk chunks, optMapM parseAns answers with
    | some cap, some init, some cs, some gs =>
      let (w, os) := run none (foreignInit init cap) cs gs
      showW w os
    | _, _, _, _ => "bad-case"
  | some (.list [.atom "simple", size, .list chunks]) =>
    match size.asNat, optMapM parseChunk chunks with
    | some size, some cs =>
      if size = 0 then "bad-case" else
      let (w, os) := run none (simpleInit size) cs []
      let wf := simpleFlush w
      showW w os ++ s!" nul_at={w.len} phys={wf.buf.length} after_flush={showBytes (wf.buf.take (w.len + 1))}"
    | _, _ => "bad-case"
  | some (.list [.atom "rust", cap, .list chunks]) =>
    match cap.asNat, optMapM parseChunk chunks with
    | some cap, some cs =>
      let (w, os) := run (some 0) (foreignInit [] cap) cs []
      -- capacity of a Rust-owned buffer is not part of the contract: not printed
      s!"len={w.len} failed={w.failed} wrote={String.ofList (os.map fun b => if b then '1' else '0')} "
        ++ s!"acc={(accessors w).1},{(accessors w).2} bytes={showBytes (contents w)}"
    | _, _ => "bad-case"
  | some (.list [.atom "cppstring", init, .list chunks]) =>
    match parseChunk init, optMapM parseChunk chunks with
    | some init, some cs =>
      let (w, _) := run (some 0) (foreignInit init init.length) cs []
      s!"string={showBytes (contents w)}"
    | _, _ => "bad-case"
  | _ => "bad-case"

end DiplomatModel.Write
