/-
  C16 (UTF-8 half) — the predicate `diplomat_is_str` must compute.

  `validUtf8` is the Unicode Table 3-7 automaton (well-formed UTF-8 byte sequences); bytes are `Nat`
  (values ≥ 256 simply fall into the rejecting branch, which keeps `omega` applicable).
  `IsUtf8` is the independent specification: the bytes are the concatenated encodings of a list of
  Unicode scalar values.
-/
import DiplomatModel.Sexp
namespace DiplomatModel.Utf8

def cont (b : Nat) : Bool := 0x80 ≤ b && b ≤ 0xBF

def validUtf8 : List Nat → Bool
  | [] => true
  | b0 :: rest =>
    if b0 < 0x80 then validUtf8 rest
    else if 0xC2 ≤ b0 ∧ b0 ≤ 0xDF then
      match rest with
      | b1 :: r => cont b1 && validUtf8 r
      | _ => false
    else if 0xE0 ≤ b0 ∧ b0 ≤ 0xEF then
      match rest with
      | b1 :: b2 :: r =>
        ((if b0 = 0xE0 then decide (0xA0 ≤ b1 ∧ b1 ≤ 0xBF)
          else if b0 = 0xED then decide (0x80 ≤ b1 ∧ b1 ≤ 0x9F)
          else cont b1) && cont b2) && validUtf8 r
      | _ => false
    else if 0xF0 ≤ b0 ∧ b0 ≤ 0xF4 then
      match rest with
      | b1 :: b2 :: b3 :: r =>
        ((if b0 = 0xF0 then decide (0x90 ≤ b1 ∧ b1 ≤ 0xBF)
          else if b0 = 0xF4 then decide (0x80 ≤ b1 ∧ b1 ≤ 0x8F)
          else cont b1) && cont b2 && cont b3) && validUtf8 r
      | _ => false
    else false

/-- Unicode scalar value: a code point that is not a surrogate. -/
def isScalar (c : Nat) : Prop := c < 0x110000 ∧ ¬ (0xD800 ≤ c ∧ c ≤ 0xDFFF)

/-- The UTF-8 encoding form (Unicode §3.9, Table 3-6). -/
def enc (c : Nat) : List Nat :=
  if c < 0x80 then [c]
  else if c < 0x800 then [0xC0 + c / 64, 0x80 + c % 64]
  else if c < 0x10000 then [0xE0 + c / 4096, 0x80 + (c / 64) % 64, 0x80 + c % 64]
  else [0xF0 + c / 262144, 0x80 + (c / 4096) % 64, 0x80 + (c / 64) % 64, 0x80 + c % 64]

def IsUtf8 (bs : List Nat) : Prop := ∃ cs : List Nat, (∀ c ∈ cs, isScalar c) ∧ cs.flatMap enc = bs

/-! ### driver -/

def hexDigit (n : Nat) : Char := "0123456789abcdef".toList.getD n '?'

/-- acceptance mask of all 65 536 two-byte continuations of `pre`, as 16 384 hex digits -/
def mask2 (pre : List Nat) : String := Id.run do
  let mut s : String := ""
  for b2 in [0:256] do
    for q in [0:64] do
      let mut nib := 0
      for k in [0:4] do
        let b3 := q * 4 + k
        nib := nib * 2 + (if validUtf8 (pre ++ [b2, b3]) then 1 else 0)
      s := s.push (hexDigit nib)
  return s

def runLine (line : String) : String :=
  match Sexp.parse line with
  | some (.list (.atom "utf8" :: bs)) =>
    match optMapM Sexp.asNat bs with
    | some l => if l.all (· < 256) then toString (validUtf8 l) else "bad-case"
    | none => "bad-case"
  | some (.list (.atom "mask2" :: bs)) =>
    match optMapM Sexp.asNat bs with
    | some l => if l.all (· < 256) then mask2 l else "bad-case"
    | none => "bad-case"
  | _ => "bad-case"

end DiplomatModel.Utf8
