/-
  Shared ABI vocabulary.

  `FTy` is the shape of a field / parameter type of the runtime's `#[repr(C)]` structs as the
  translator reads it from Rust (`runtime/src/*.rs`) and from C (`capi.h.jinja`).
-/
namespace DiplomatModel.Abi

inductive FTy where
  | ptr (pointee : String)
  | usize
  | bool
  | void
  | phantom                      -- zero-sized `PhantomData`
  | named (name : String)
  | fn (args : List FTy) (ret : FTy)
  deriving Repr, Inhabited

/-- ABI class of a field: what occupies the slot, forgetting pointee names. -/
inductive Slot where
  | ptr | usize | bool | void | fnptr | named (n : String)
  deriving Repr, DecidableEq

def FTy.slot : FTy → Slot
  | .ptr _ => .ptr
  | .usize => .usize
  | .bool => .bool
  | .void => .void
  | .phantom => .void
  | .named n => .named n
  | .fn _ _ => .fnptr

/-- signature of a function-pointer field as slots -/
def FTy.sig : FTy → Option (List Slot × Slot)
  | .fn args ret => some (args.map FTy.slot, ret.slot)
  | _ => none

/-- (name, slot, fn-signature) of every non-zero-sized field, in order -/
def layoutOf (fs : List (String × FTy)) : List (String × Slot × Option (List Slot × Slot)) :=
  (fs.filter fun f => match f.2 with | .phantom => false | _ => true).map fun f => (f.1, f.2.slot, f.2.sig)

end DiplomatModel.Abi
