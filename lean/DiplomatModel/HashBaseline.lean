/-
  C14 — reviewed list of every hash-ordered container in core/src and tool/src, with the reason its iteration
  order cannot reach an output file.  Hand-maintained; `Props/C14.lean` proves the scan of the current
  source equals it, so a new container (or a new mention inside a function) has to be reviewed here.
-/
namespace DiplomatModel.HashBaseline

/-- (file, enclosing fn or struct, container, mentions, why its order is invisible) -/
def baseline : List (String × String × String × Nat × String) :=
  [("core/src/ast/docs.rs", "struct DocsUrlGenerator", "HashMap", 1, "base_urls: `get` by crate name only"),
   ("core/src/ast/docs.rs", "test_docs_url_generator", "HashMap", 1, "unit test"),
   ("core/src/ast/docs.rs", "with_base_urls", "HashMap", 1, "constructor, stores the map"),
   ("core/src/ast/modules.rs", "all_rust_links", "HashSet", 3, "set of rust_link targets; only consumed by the docs coverage test, never by a backend"),
   ("core/src/hir/type_context.rs", "struct LookupId", "HashMap", 5, "AST node -> id maps: `get`/`insert` only, ids are assigned while iterating the sorted Env"),
   ("tool/src/c/formatter.rs", "fmt_identifier", "HashSet", 2, "keyword sets: `contains` only"),
   ("tool/src/config.rs", "struct Config", "HashMap", 1, "language_overrides: iterated in get_overridden, but distinct keys write distinct config fields (C17 model)"),
   ("tool/src/demo_gen/mod.rs", "run", "HashMap", 1, "name_collision counter: `entry` by name only"),
   ("tool/src/demo_gen/terminus.rs", "struct RenderTerminusContext", "HashMap", 1, "name_collision counter: `entry` by name only"),
   ("tool/src/lib.rs", "struct FileMap", "HashMap", 1, "file name -> contents; one entry per file, written independently"),
   ("tool/src/lib.rs", "take_files", "HashMap", 1, "hands the map to the writer: each file written under its own name"),
   ("tool/src/nanobind/formatter.rs", "fmt_identifier", "HashSet", 1, "keyword set: `contains` only"),
   ("tool/src/nanobind/mod.rs", "run", "HashSet", 1, "submodules seen so far: `contains`/`insert` only"),
   ("tool/src/nanobind/ty.rs", "struct TyGenContext", "HashSet", 1, "submodules seen so far: `contains`/`insert` only")]

end DiplomatModel.HashBaseline
