/-
  C04 — the JS runtime's side of a borrow edge for slices (`CleanupArena.createWith`, tool/templates/js/runtime.mjs).

  Generated code keeps, per lifetime, an *edge array* that the returned object holds on to.  For a slice argument
  that must outlive some lifetimes it calls `CleanupArena.createWith(...edgeArrays)`: a fresh arena (the owner of
  the wasm buffer) is pushed onto every array given (null entries skipped) and returned.
-/
import DiplomatModel.Sexp
namespace DiplomatModel.JsArena
open DiplomatModel.Sexp

/-- push `a` onto the `i`-th array -/
def pushAt : List (List Nat) → Nat → Nat → List (List Nat)
  | [], _, _ => []
  | x :: xs, 0, a => (x ++ [a]) :: xs
  | x :: xs, i + 1, a => x :: pushAt xs i a

/-- `for (let edgeArray of edgeArrays) if (edgeArray != null) edgeArray.push(self)` -/
def pushAll (arrays : List (List Nat)) (a : Nat) : List (Option Nat) → List (List Nat)
  | [] => arrays
  | none :: es => pushAll arrays a es
  | some i :: es => pushAll (pushAt arrays i a) a es

structure St where
  arrays : List (List Nat)
  next : Nat               -- identity of the next arena

/-- `createWith`: the arena's identity and the arrays afterwards -/
def createWith (s : St) (call : List (Option Nat)) : St × Nat :=
  ({ arrays := pushAll s.arrays s.next call, next := s.next + 1 }, s.next)

def runCalls (s : St) : List (List (Option Nat)) → St
  | [] => s
  | c :: cs => runCalls (createWith s c).1 cs

/-! ### driver: `(arena N (CALL…)…)` with `CALL ::= (i | n)…` → the arrays, `;`-separated -/
def parseCall : Sexp → Option (List (Option Nat))
  | .list es => optMapM (fun e => match e with
      | .atom "n" => some none
      | .atom a => a.toNat?.map some
      | _ => none) es
  | _ => none

def runLine (line : String) : String :=
  match Sexp.parse line with
  | some (.list (.atom "arena" :: .atom n :: calls)) =>
    match n.toNat?, optMapM parseCall calls with
    | some k, some cs =>
      let s := runCalls ⟨List.replicate k [], 0⟩ cs
      ";".intercalate (s.arrays.map fun a => " ".intercalate (a.map Nat.repr))
    | _, _ => "bad-case"
  | _ => "bad-case"

end DiplomatModel.JsArena
