/-
  C13 — Backend-conditional attributes apply exactly where their condition holds.
-/
import DiplomatModel.Lemmas.Cfg
namespace DiplomatModel.Props.C13
open DiplomatModel.Cfg DiplomatModel.Generated.AttrSupport

/-- Whenever `satisfies_cfg` answers at all (formulas of any depth), its answer is the plain Boolean
    meaning of the formula: backend names, `*`, `not`/`any`/`all`, `supports = feature`. -/
theorem satisfies_eq_denote (vd : Validator) (c : Cfg) (allow b af : Bool)
    (h : sat vd c allow = some (b, af)) : b = denote vd c :=
  sat_denote vd c allow b af h

/-- The `supports = <value>` table reads, for every value, the support flag of that very name, and every
    backend defines every such flag (both tables are regenerated from the source on each run). -/
theorem supports_table_sound :
    (∀ p ∈ supportsArms, p.1 = p.2)
    ∧ (∀ b ∈ backendFlags, ∀ p ∈ supportsArms, (b.2.lookup p.2).isSome = true) := by
  decide

/-- The seven backend names answer to themselves; `demo_gen` also answers to `js`; nothing else. -/
theorem backend_identity :
    otherNames.lookup "demo_gen" = some ["js"]
    ∧ ∀ t ∈ ["c", "cpp", "js", "dart", "kotlin", "nanobind"], otherNames.lookup t = some [] := by
  decide

/-- **disable, item level.** With lowering reporting no error, an item ends up disabled iff its parent
    was, or some attribute in its (inherited + own) list is a `disable` whose condition is true. -/
theorem disabled_iff (vd : Validator) (attrs : List Attr) (parent : HAttrs)
    (hok : (fromAst vd parent attrs).2 = 0) :
    (fromAst vd parent attrs).1.disable = true ↔
      parent.disable = true ∨ ∃ a ∈ attrs, a.kind = .disable ∧ denote vd a.cfg = true :=
  fromAst_disable_iff vd attrs parent hok

/-- **disable, type level.** A type is marked disabled for a backend (and lowered without methods) iff a
    true-conditioned `disable` sits on the bridge module or on the type. -/
theorem type_disabled_iff (vd : Validator) (m : ModuleDef) (t : TypeDef)
    (hm : (fromAst vd {} m.attrs).2 = 0)
    (ht : (fromAst vd ((fromAst vd {} m.attrs).1.forInheritance .type) t.attrs).2 = 0) :
    let mp := (fromAst vd {} m.attrs).1
    (lowerType vd (mp.forInheritance .type) (mp.forInheritance .methodFromModule) t).1.disabled = true ↔
      ∃ a ∈ m.attrs ++ t.attrs, a.kind = .disable ∧ denote vd a.cfg = true := by
  intro mp
  have h1 := fromAst_disable_iff vd m.attrs {} hm
  have h2 := fromAst_disable_iff vd t.attrs (mp.forInheritance .type) ht
  have hd : (lowerType vd (mp.forInheritance .type) (mp.forInheritance .methodFromModule) t).1.disabled
      = (fromAst vd (mp.forInheritance .type) t.attrs).1.disable := by
    unfold lowerType; simp only; split <;> simp_all
  rw [hd, h2]
  have hp : (mp.forInheritance .type).disable = mp.disable := rfl
  rw [hp, h1]
  simp only [List.mem_append]
  constructor
  · rintro ((h | ⟨a, ha, hk⟩) | ⟨a, ha, hk⟩)
    · cases h
    · exact ⟨a, Or.inl ha, hk⟩
    · exact ⟨a, Or.inr ha, hk⟩
  · rintro ⟨a, ha | ha, hk⟩
    · exact Or.inl (Or.inr ⟨a, ha, hk⟩)
    · exact Or.inr ⟨a, ha, hk⟩

/-- **disable, method level.** A method of an enabled type is dropped for a backend iff a true-conditioned
    `disable` sits on the module, on its impl block, or on the method. -/
theorem method_disabled_iff (vd : Validator) (m : ModuleDef) (i : ImplDef) (me : MethodDef)
    (hm : (fromAst vd {} m.attrs).2 = 0)
    (hme : (fromAst vd ((fromAst vd {} m.attrs).1.forInheritance .methodFromModule) (methodAttrs i me)).2 = 0) :
    (fromAst vd ((fromAst vd {} m.attrs).1.forInheritance .methodFromModule) (methodAttrs i me)).1.disable = true ↔
      ∃ a ∈ m.attrs ++ i.attrs ++ me.attrs, a.kind = .disable ∧ denote vd a.cfg = true := by
  have h1 := fromAst_disable_iff vd m.attrs {} hm
  rw [fromAst_disable_iff vd _ _ hme]
  have hp : ((fromAst vd {} m.attrs).1.forInheritance .methodFromModule).disable = (fromAst vd {} m.attrs).1.disable := rfl
  rw [hp, h1]
  simp only [methodAttrs, List.mem_append]
  constructor
  · rintro ((h | ⟨a, ha, hk⟩) | ⟨a, ha, hk⟩)
    · cases h
    · exact ⟨a, Or.inl (Or.inl ha), hk⟩
    · rcases ha with ha | ha
      · exact ⟨a, Or.inl (Or.inr ha), hk⟩
      · exact ⟨a, Or.inr ha, hk⟩
  · rintro ⟨a, (ha | ha) | ha, hk⟩
    · exact Or.inl (Or.inr ⟨a, ha, hk⟩)
    · exact Or.inr ⟨a, Or.inl ha, hk⟩
    · exact Or.inr ⟨a, Or.inr ha, hk⟩

/-- **rename.** The pattern an item carries is that of the last `rename` in its list whose condition is
    true, else the inherited one (module → type is inherited, module → method is not). -/
theorem rename_iff (vd : Validator) (attrs : List Attr) (parent : HAttrs)
    (hok : (fromAst vd parent attrs).2 = 0) :
    (fromAst vd parent attrs).1.rename = (lastRename vd attrs).or parent.rename :=
  fromAst_rename vd attrs parent hok

theorem module_rename_not_inherited_by_methods (a : HAttrs) :
    (a.forInheritance .methodFromModule).rename = none ∧ (a.forInheritance .type).rename = a.rename :=
  ⟨rfl, rfl⟩

/-- **Other backends are unaffected.** An attribute whose condition is false for a backend can be
    inserted anywhere in any attribute list without changing what that backend lowers … -/
theorem false_attr_invisible (vd : Validator) (a : Attr) (af : Bool)
    (h : sat vd a.cfg true = some (false, af)) (l1 l2 : List Attr) (parent : HAttrs) :
    fromAst vd parent (l1 ++ a :: l2) = fromAst vd parent (l1 ++ l2) :=
  fromAst_skip vd a af h l1 l2 parent

/-- … in particular on the bridge module itself: the whole lowered context is identical. -/
theorem other_backends_unchanged_module (vd : Validator) (a : Attr) (af : Bool)
    (h : sat vd a.cfg true = some (false, af)) (l1 l2 : List Attr) (types : List TypeDef) :
    lower vd ⟨l1 ++ a :: l2, types⟩ = lower vd ⟨l1 ++ l2, types⟩ := by
  unfold lower
  simp only [fromAst_skip vd a af h l1 l2]

/-- … on a type … -/
theorem other_backends_unchanged_type (vd : Validator) (a : Attr) (af : Bool)
    (h : sat vd a.cfg true = some (false, af)) (l1 l2 : List Attr) (tp mp : HAttrs) (n : String) (is : List ImplDef) :
    lowerType vd tp mp ⟨n, l1 ++ a :: l2, is⟩ = lowerType vd tp mp ⟨n, l1 ++ l2, is⟩ := by
  unfold lowerType
  simp only [fromAst_skip vd a af h l1 l2]

/-- … and on an impl block or a method (their lists are concatenated before evaluation). -/
theorem other_backends_unchanged_method (vd : Validator) (a : Attr) (af : Bool)
    (h : sat vd a.cfg true = some (false, af)) (l1 l2 : List Attr) (mp : HAttrs) (i : ImplDef) (n : String) :
    fromAst vd mp (methodAttrs i ⟨n, l1 ++ a :: l2⟩) = fromAst vd mp (methodAttrs i ⟨n, l1 ++ l2⟩) := by
  unfold methodAttrs
  have := fromAst_skip vd a af h (i.attrs ++ l1) l2 mp
  simpa [List.append_assoc] using this

theorem other_backends_unchanged_impl (vd : Validator) (a : Attr) (af : Bool)
    (h : sat vd a.cfg true = some (false, af)) (l1 l2 : List Attr) (mp : HAttrs) (ms : List MethodDef) (me : MethodDef) :
    fromAst vd mp (methodAttrs ⟨l1 ++ a :: l2, ms⟩ me) = fromAst vd mp (methodAttrs ⟨l1 ++ l2, ms⟩ me) := by
  unfold methodAttrs
  have := fromAst_skip vd a af h l1 (l2 ++ me.attrs) mp
  simpa [List.append_assoc] using this

/-! non-vacuity -/
def jsV : Validator := (validatorFor "js").getD ⟨"", [], []⟩
example : sat jsV (.any [.backend "cpp", .not (.nameValue "supports" "namespacing")]) true = some (true, false) := by decide
example : (fromAst jsV {} [⟨.backend "js", .disable⟩]).2 = 0 ∧ (fromAst jsV {} [⟨.backend "js", .disable⟩]).1.disable = true := by decide
example : sat jsV (.backend "cpp") true = some (false, false) := by decide

end DiplomatModel.Props.C13
