/-
  C02 — C++ bindings preserve values and outcomes in both directions; a `&str` passed directly as a method
  parameter that is not valid UTF-8 is rejected on the C++ side and never reaches Rust.

  PARTIAL: the theorems cover the UTF-8 guard (which parameters are validated, what the wrapper does, that the
  validity test is exactly UTF-8 — through C16's automaton theorem) and the value-level conversions of
  optionals, nullable pointers and unit options.  The conversion expressions for the remaining types and the
  behaviour of `diplomat_runtime.hpp` are decided by the compiled end-to-end C++ driver.
-/
import DiplomatModel.CppGen
import DiplomatModel.Props.C16
import DiplomatModel.Props.C01
import DiplomatModel.CppMethod
import DiplomatModel.Lemmas.Cpp
namespace DiplomatModel.Props.C02
open DiplomatModel.Lower DiplomatModel.AbiGen DiplomatModel.CppGen DiplomatModel.CppMethod
open DiplomatModel.Props.C05 (InOk)
open DiplomatModel.Props.C01 (has128 isOpaque_named cPrim_some derived_some)

/-! ### the guard list -/

/-- **Exactly the direct `&str` parameters are validated**: a parameter is in the guard list iff its own type
    is a (borrowed or owned) UTF-8 string — not an optional string, not a string inside a struct or slice, not
    an unvalidated encoding. -/
theorem guard_iff (m : AMethod) (n : String) :
    n ∈ guardedParams m ↔ ∃ t, (n, t) ∈ m.params ∧ isUtf8Str t = true := by
  simp only [guardedParams, List.mem_map, List.mem_filter]
  constructor
  · rintro ⟨p, ⟨hp, hs⟩, rfl⟩; exact ⟨p.2, hp, hs⟩
  · rintro ⟨t, hp, hs⟩; exact ⟨(n, t), ⟨hp, hs⟩, rfl⟩

theorem no_guard_elsewhere (lt : Option Lt) (e : Enc) (sd osd : Sd) (ltm : Option (Lt × Bool)) (p : Prim) :
    isUtf8Str (.opt (.strRef lt .utf8 sd) osd) = false
    ∧ isUtf8Str (.strSlice e sd) = false
    ∧ isUtf8Str (.strRef lt .unvalidatedUtf8 sd) = false
    ∧ isUtf8Str (.strRef lt .unvalidatedUtf16 sd) = false
    ∧ isUtf8Str (.primSlice ltm p sd) = false
    ∧ (∀ n, isUtf8Str (.named n) = false) := by
  simp [isUtf8Str]

/-- the wrapper's return type is the `Utf8Error` result exactly when something is validated -/
theorem wraps_iff (m : AMethod) : wrapsUtf8 m = true ↔ ∃ p ∈ m.params, isUtf8Str p.2 = true := by
  simp only [wrapsUtf8, guardedParams]
  cases h : List.filter (fun p => isUtf8Str p.2) m.params with
  | nil =>
    simp only [List.map_nil, List.isEmpty_nil, Bool.not_true]
    constructor
    · intro hh; cases hh
    · rintro ⟨p, hp, hs⟩
      have : p ∈ List.filter (fun p => isUtf8Str p.2) m.params := List.mem_filter.mpr ⟨hp, hs⟩
      rw [h] at this; cases this
  | cons x xs =>
    simp only [List.map_cons, List.isEmpty_cons, Bool.not_false, true_iff]
    have : x ∈ List.filter (fun p => isUtf8Str p.2) m.params := by rw [h]; simp
    exact ⟨x, (List.mem_filter.mp this).1, (List.mem_filter.mp this).2⟩

/-! ### what the wrapper does -/

/-- **Invalid UTF-8 never reaches Rust.** If some validated argument is not valid UTF-8, the wrapper returns
    the `Utf8Error` and the exported function is not called. -/
theorem invalid_never_reaches_rust {ρ : Type} (guarded : List Bool) (args : List Arg) (rust : List Arg → ρ)
    (h : ∃ ga ∈ guarded.zip args, ga.1 = true ∧ ga.2.valid = false) :
    (wrapper guarded args rust).2 = 0 ∧ (match (wrapper guarded args rust).1 with | .utf8Error => True | _ => False) := by
  obtain ⟨ga, hm, hg, hv⟩ := h
  have : ((guarded.zip args).all fun ga => !ga.1 || ga.2.valid) = false := by
    rw [Bool.eq_false_iff]
    intro hall
    have := (List.all_eq_true.mp hall) ga hm
    simp [hg, hv] at this
  simp [wrapper, this]

/-- Otherwise the exported function is called exactly once with the arguments as given, and its result is returned. -/
theorem valid_calls_once {ρ : Type} (guarded : List Bool) (args : List Arg) (rust : List Arg → ρ)
    (h : ∀ ga ∈ guarded.zip args, ga.1 = true → ga.2.valid = true) :
    wrapper guarded args rust = (.returned (rust args), 1) := by
  have : ((guarded.zip args).all fun ga => !ga.1 || ga.2.valid) = true := by
    rw [List.all_eq_true]
    intro ga hm
    cases hg : ga.1 with
    | false => simp
    | true => simp [h ga hm hg]
  simp [wrapper, this]

/-- The test the wrapper applies (`diplomat_is_str`, tied to the real function exhaustively by C16) accepts
    exactly the byte strings that are the UTF-8 encoding of a sequence of Unicode scalar values. -/
theorem guard_is_exactly_utf8 (bs : List Nat) : (Arg.str bs).valid = true ↔ Utf8.IsUtf8 bs :=
  DiplomatModel.Props.C16.validUtf8_iff bs

/-! ### conversions -/

/-- `std::optional<T>` → C option struct → `std::optional<T>` is the identity, and `is_ok` is `has_value()`. -/
theorem optional_roundtrip {α β : Type} (to : α → β) (from_ : β → α) (hinv : ∀ a, from_ (to a) = a) (o : Option α) :
    optFromC from_ (optToC to o) = some o ∧ (optToC to o).2 = o.isSome := by
  cases o <;> simp [optToC, optFromC, hinv]

/-- a nullable pointer: absent ↦ NULL ↦ absent; present (non-NULL address) ↦ itself -/
theorem optional_pointer_roundtrip (o : Option Nat) (h : ∀ a, o = some a → a ≠ 0) :
    ptrFromC (ptrToC o) = o ∧ (ptrToC o = 0 ↔ o = none) := by
  cases o with
  | none => simp [ptrToC, ptrFromC]
  | some a => simp [ptrToC, ptrFromC, h a rfl]

/-- `Option<()>`: `Some(())` comes back as an engaged optional, `None` as `nullopt` … -/
theorem option_unit_return (isOk : Bool) : (optUnitFromC isOk).isSome = isOk := by
  cases isOk <;> rfl

/-- … which the expression generated before the repair (F29) did not do. -/
example : (optUnitFromC_before true).isSome ≠ true := by decide

/-! ### non-vacuity -/
def mEx : AMethod := ⟨"m", none, [("a", .strRef (some .anon) .utf8 .std), ("b", .opt (.strRef (some .anon) .utf8 .std) .std), ("c", .strRef none .utf8 .dip)], none⟩
example : guardedParams mEx = ["a", "c"] ∧ wrapsUtf8 mEx = true := by decide
example : (wrapper [true, false] [.str [0xff], .other 1] (fun _ => 7)).2 = 0 := by decide
example : (wrapper [true, false] [.str [0x41], .other 1] (fun _ => 7)).2 = 1 := by decide

/-! ### the generated method implementation (`CppMethod`, exact-text tie `cpp-method`) -/

/-- **The two models of the guard agree**: the parameters `methodImpl` prints a validation for are the guard
    list of `CppGen` (the write buffer, which is not a C++ parameter, is never validated). -/
theorem guards_agree (m : AMethod) :
    ((cppParams m).filter fun p => isUtf8Param p.2).map (·.1) = guardedParams m := by
  unfold cppParams guardedParams
  rw [List.filter_filter]
  congr 1
  apply List.filter_congr
  intro p _
  cases h : p.2 <;> simp [isUtf8Param, isUtf8Str]
  rename_i lt e sd
  cases e <;> simp

/-- **Every parameter type the gate lets through has a C++ type and a conversion to C.** (128-bit integers have
    no C spelling; callbacks are covered by the tie only.) -/
theorem cpp_param_total_partial (env : Env) (sup : Support) (t : TyName) (x : String)
    (h : InOk env sup false t) (h128 : has128 t = false) (hfn : ∀ ps r, t ≠ .fn ps r) :
    (cppTyName env t).isSome = true ∧ (cppToC env t x).isSome = true := by
  cases h with
  | prim _ p =>
    obtain ⟨c, hc, _⟩ := cPrim_some p (by simpa [has128] using h128)
    simp [cppTyName, cppToC, cppToCPlain, hc]
  | struct _ n fields hg hne => simp [cppTyName, cppToC, cppToCPlain, hg]
  | enum _ n hg => simp [cppTyName, cppToC, cppToCPlain, hg]
  | refOpaque _ lt m t ho =>
    obtain ⟨n, rfl, hn⟩ := isOpaque_named ho
    simp [cppTyName, cppToC, cppToCPlain, hn]
  | optRefOpaque _ lt m t ho =>
    obtain ⟨n, rfl, hn⟩ := isOpaque_named ho
    simp [cppTyName, cppToC, hn]
  | optNamed _ n sd hno _ _ hin =>
    cases hin with
    | struct _ _ fields hg hne => simp [cppTyName, cppToC, cppToCPlain, capiOpt, cTy, hg]
    | enum _ _ hg => simp [cppTyName, cppToC, cppToCPlain, capiOpt, cTy, hg]
  | optPrim _ p sd _ _ =>
    obtain ⟨c, hc, _⟩ := cPrim_some p (by simpa [has128] using h128)
    obtain ⟨d, hd, _⟩ := derived_some p (by simpa [has128] using h128)
    simp [cppTyName, cppToC, cppToCPlain, capiOpt, cTy, hc, hd]
  | optStrs _ e s sd _ => simp [cppTyName, cppToC, cppToCPlain, capiOpt, cTy]
  | optStr _ lt e s sd _ _ => simp [cppTyName, cppToC, cppToCPlain, capiOpt, cTy]
  | optSlice _ ltm p s sd _ _ =>
    obtain ⟨c, hc, _⟩ := cPrim_some p (by simpa [has128] using h128)
    obtain ⟨d, hd, _⟩ := derived_some p (by simpa [has128] using h128)
    simp [cppTyName, cppToC, cppToCPlain, capiOpt, cTy, hc, hd]
  | str _ lt e sd _ => simp [cppTyName, cppToC, cppToCPlain]
  | strs _ e sd => simp [cppTyName, cppToC, cppToCPlain]
  | slice _ ltm p sd _ =>
    obtain ⟨c, hc, _⟩ := cPrim_some p (by simpa [has128] using h128)
    simp [cppTyName, cppToC, cppToCPlain, hc]
  | callback ps r _ _ _ => exact absurd rfl (hfn ps r)

/-- **One argument per C parameter.** With at most one `DiplomatWrite` parameter (the gate allows it only as the
    last one), the call the wrapper makes passes exactly as many arguments as the C prototype declares: `self`,
    one per parameter, and the write buffer. -/
theorem cpp_args_match_c_params (env : Env) (pfx owner : String) (m : AMethod) (args : List String)
    (ps : List (String × CTy))
    (hw : (m.params.filter fun p => match p.2 with | .write => true | _ => false).length ≤ 1)
    (ha : cppArgs env m = some args) (hc : cParams env pfx owner m = some ps) :
    args.length = ps.length := by
  unfold cppArgs at ha
  unfold cParams at hc
  cases hconv : optMapM (fun p : String × TyName => cppToC env p.2 p.1) (cppParams m) with
  | none => simp [hconv] at ha
  | some conv =>
    simp only [hconv, Option.some.injEq] at ha
    cases hs : cSelf env owner m with
    | none => simp [hs] at hc
    | some sl =>
      cases hp : optMapM (cParam1 env (abiName pfx owner m.name)) m.params with
      | none => simp [hs, hp] at hc
      | some pl =>
        simp only [hs, hp, Option.some.injEq] at hc
        subst ha; subst hc
        have h1 : conv.length = (cppParams m).length := optMapM_length _ _ _ hconv
        have h2 : pl.length = m.params.length := optMapM_length _ _ _ hp
        have h3 : sl.length = if m.self.isSome then 1 else 0 := by
          unfold cSelf at hs
          cases hself : m.self with
          | none => simp [hself] at hs; subst hs; rfl
          | some s =>
            simp only [hself, Option.map_eq_some_iff] at hs
            obtain ⟨c, _, rfl⟩ := hs; rfl
        have h4 : (cppParams m).length + (m.params.filter fun p => match p.2 with | .write => true | _ => false).length
            = m.params.length := by
          unfold cppParams
          apply filter_partition_length
          intro p
          cases p.2 <;> rfl
        have h5 : hasWriteParam m = true ↔ 1 ≤ (m.params.filter fun p => match p.2 with | .write => true | _ => false).length := by
          unfold hasWriteParam
          rw [List.any_eq_true]
          constructor
          · rintro ⟨p, hp, hq⟩
            exact List.length_pos_of_mem (List.mem_filter.mpr ⟨hp, hq⟩)
          · intro h
            obtain ⟨p, hp⟩ := List.exists_mem_of_length_pos h
            exact ⟨p, (List.mem_filter.mp hp).1, (List.mem_filter.mp hp).2⟩
        simp only [List.length_append, h1, h2, h3]
        generalize (m.params.filter fun p => match p.2 with | .write => true | _ => false).length = w at hw h4 h5
        cases hwp : hasWriteParam m with
        | true =>
          have := h5.mp hwp
          cases m.self.isSome <;> simp <;> omega
        | false =>
          have : ¬ 1 ≤ w := fun h => by simp [h5.mpr h] at hwp
          cases m.self.isSome <;> simp <;> omega

/-- **Which arm comes back.** For a method returning `Result<T, E>` the wrapper's return expression is a
    conditional on the C result's `is_ok`: the `Ok` constructor in the true branch, `Err` in the false branch. -/
theorem fallible_return_shape (env : Env) (ok : Succ) (err : Option TyName) (e : String)
    (h : cToCppRet env (.fallible ok err) "result" = some (some e)) :
    ∃ res o er oc ec, e = "result.is_ok ? " ++ res ++ "(diplomat::Ok<" ++ o ++ ">(" ++ oc ++ ")) : " ++ res
        ++ "(diplomat::Err<" ++ er ++ ">(" ++ ec ++ "))" := by
  unfold cToCppRet at h
  simp only at h
  split at h
  · rename_i o er oc ec _ _ _ _
    simp only [Option.some.injEq] at h
    exact ⟨_, o, er, oc, ec, h.symm⟩
  · simp at h

/-- for a method returning `Option<T>` (not a pointer): engaged exactly in the `is_ok` branch -/
theorem nullable_return_shape (env : Env) (s : Succ) (e : String)
    (h : cToCppRet env (.nullable s) "result" = some (some e)) :
    ∃ n c, e = "result.is_ok ? std::optional<" ++ n ++ ">(" ++ c ++ ") : std::nullopt" := by
  unfold cToCppRet at h
  simp only at h
  split at h
  · rename_i n c _ _
    simp only [Option.some.injEq] at h
    exact ⟨n, c, h.symm⟩
  · simp at h

/-- non-vacuity: a concrete method renders, with a validated parameter, an optional and a result -/
example : (methodImpl [("Opa", .opaqueTy), ("En", .enumTy)] "c3_" "Opa"
    ⟨"m", some ⟨true, .anon, false⟩, [("s", .strRef (some .anon) .utf8 .std), ("x", .opt (.prim .u8) .std)],
      some (.res (.box (.named "Opa")) (.named "En") .std)⟩).isSome = true := by decide

end DiplomatModel.Props.C02
