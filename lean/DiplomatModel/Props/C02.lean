/-
  C02 — C++ bindings preserve values and outcomes in both directions; a `&str` passed directly as a method
  parameter that is not valid UTF-8 is rejected on the C++ side and never reaches Rust.

  PARTIAL: the theorems cover the UTF-8 guard (which parameters are validated, what the wrapper does, that the
  validity test is exactly UTF-8 — through C16's automaton theorem) and the value-level conversions of
  optionals, nullable pointers and unit options.  The conversion expressions for the remaining types and the
  behaviour of `diplomat_runtime.hpp` are decided by the compiled end-to-end C++ driver.
-/
import DiplomatModel.CppGen
import DiplomatModel.Props.C16
namespace DiplomatModel.Props.C02
open DiplomatModel.Lower DiplomatModel.AbiGen DiplomatModel.CppGen

/-! ### the guard list -/

/-- **Exactly the direct `&str` parameters are validated**: a parameter is in the guard list iff its own type
    is a (borrowed or owned) UTF-8 string — not an optional string, not a string inside a struct or slice, not
    an unvalidated encoding. -/
theorem guard_iff (m : AMethod) (n : String) :
    n ∈ guardedParams m ↔ ∃ t, (n, t) ∈ m.params ∧ isUtf8Str t = true := by
  simp only [guardedParams, List.mem_map, List.mem_filter]
  constructor
  · rintro ⟨p, ⟨hp, hs⟩, rfl⟩; exact ⟨p.2, hp, hs⟩
  · rintro ⟨t, hp, hs⟩; exact ⟨(n, t), ⟨hp, hs⟩, rfl⟩

theorem no_guard_elsewhere (lt : Option Lt) (e : Enc) (sd osd : Sd) (ltm : Option (Lt × Bool)) (p : Prim) :
    isUtf8Str (.opt (.strRef lt .utf8 sd) osd) = false
    ∧ isUtf8Str (.strSlice e sd) = false
    ∧ isUtf8Str (.strRef lt .unvalidatedUtf8 sd) = false
    ∧ isUtf8Str (.strRef lt .unvalidatedUtf16 sd) = false
    ∧ isUtf8Str (.primSlice ltm p sd) = false
    ∧ (∀ n, isUtf8Str (.named n) = false) := by
  simp [isUtf8Str]

/-- the wrapper's return type is the `Utf8Error` result exactly when something is validated -/
theorem wraps_iff (m : AMethod) : wrapsUtf8 m = true ↔ ∃ p ∈ m.params, isUtf8Str p.2 = true := by
  simp only [wrapsUtf8, guardedParams]
  cases h : List.filter (fun p => isUtf8Str p.2) m.params with
  | nil =>
    simp only [List.map_nil, List.isEmpty_nil, Bool.not_true]
    constructor
    · intro hh; cases hh
    · rintro ⟨p, hp, hs⟩
      have : p ∈ List.filter (fun p => isUtf8Str p.2) m.params := List.mem_filter.mpr ⟨hp, hs⟩
      rw [h] at this; cases this
  | cons x xs =>
    simp only [List.map_cons, List.isEmpty_cons, Bool.not_false, true_iff]
    have : x ∈ List.filter (fun p => isUtf8Str p.2) m.params := by rw [h]; simp
    exact ⟨x, (List.mem_filter.mp this).1, (List.mem_filter.mp this).2⟩

/-! ### what the wrapper does -/

/-- **Invalid UTF-8 never reaches Rust.** If some validated argument is not valid UTF-8, the wrapper returns
    the `Utf8Error` and the exported function is not called. -/
theorem invalid_never_reaches_rust {ρ : Type} (guarded : List Bool) (args : List Arg) (rust : List Arg → ρ)
    (h : ∃ ga ∈ guarded.zip args, ga.1 = true ∧ ga.2.valid = false) :
    (wrapper guarded args rust).2 = 0 ∧ (match (wrapper guarded args rust).1 with | .utf8Error => True | _ => False) := by
  obtain ⟨ga, hm, hg, hv⟩ := h
  have : ((guarded.zip args).all fun ga => !ga.1 || ga.2.valid) = false := by
    rw [Bool.eq_false_iff]
    intro hall
    have := (List.all_eq_true.mp hall) ga hm
    simp [hg, hv] at this
  simp [wrapper, this]

/-- Otherwise the exported function is called exactly once with the arguments as given, and its result is returned. -/
theorem valid_calls_once {ρ : Type} (guarded : List Bool) (args : List Arg) (rust : List Arg → ρ)
    (h : ∀ ga ∈ guarded.zip args, ga.1 = true → ga.2.valid = true) :
    wrapper guarded args rust = (.returned (rust args), 1) := by
  have : ((guarded.zip args).all fun ga => !ga.1 || ga.2.valid) = true := by
    rw [List.all_eq_true]
    intro ga hm
    cases hg : ga.1 with
    | false => simp
    | true => simp [h ga hm hg]
  simp [wrapper, this]

/-- The test the wrapper applies (`diplomat_is_str`, tied to the real function exhaustively by C16) accepts
    exactly the byte strings that are the UTF-8 encoding of a sequence of Unicode scalar values. -/
theorem guard_is_exactly_utf8 (bs : List Nat) : (Arg.str bs).valid = true ↔ Utf8.IsUtf8 bs :=
  DiplomatModel.Props.C16.validUtf8_iff bs

/-! ### conversions -/

/-- `std::optional<T>` → C option struct → `std::optional<T>` is the identity, and `is_ok` is `has_value()`. -/
theorem optional_roundtrip {α β : Type} (to : α → β) (from_ : β → α) (hinv : ∀ a, from_ (to a) = a) (o : Option α) :
    optFromC from_ (optToC to o) = some o ∧ (optToC to o).2 = o.isSome := by
  cases o <;> simp [optToC, optFromC, hinv]

/-- a nullable pointer: absent ↦ NULL ↦ absent; present (non-NULL address) ↦ itself -/
theorem optional_pointer_roundtrip (o : Option Nat) (h : ∀ a, o = some a → a ≠ 0) :
    ptrFromC (ptrToC o) = o ∧ (ptrToC o = 0 ↔ o = none) := by
  cases o with
  | none => simp [ptrToC, ptrFromC]
  | some a => simp [ptrToC, ptrFromC, h a rfl]

/-- `Option<()>`: `Some(())` comes back as an engaged optional, `None` as `nullopt` … -/
theorem option_unit_return (isOk : Bool) : (optUnitFromC isOk).isSome = isOk := by
  cases isOk <;> rfl

/-- … which the expression generated before the repair (F29) did not do. -/
example : (optUnitFromC_before true).isSome ≠ true := by decide

/-! ### non-vacuity -/
def mEx : AMethod := ⟨"m", none, [("a", .strRef (some .anon) .utf8 .std), ("b", .opt (.strRef (some .anon) .utf8 .std) .std), ("c", .strRef none .utf8 .dip)], none⟩
example : guardedParams mEx = ["a", "c"] ∧ wrapsUtf8 mEx = true := by decide
example : (wrapper [true, false] [.str [0xff], .other 1] (fun _ => 7)).2 = 0 := by decide
example : (wrapper [true, false] [.str [0x41], .other 1] (fun _ => 7)).2 = 1 := by decide

end DiplomatModel.Props.C02
