/-
  C04 — Borrow edges keep alive everything a returned value may borrow from.

  `Reach g a x` ("x outlives a") is the reflexive-transitive closure of the declared and implied bounds;
  `allLonger` is the stack search of `LifetimeTransitivityIterator`; `visitParam` / `borrowMap` are the
  transcription of `BorrowingParamVisitor`.  Graphs, parameter lists and lifetime counts are unbounded.
-/
import DiplomatModel.Lemmas.Lifetimes
import DiplomatModel.Lemmas.JsArena
namespace DiplomatModel.Props.C04
open DiplomatModel.Lifetimes

/-- The search always terminates within its fuel and returns exactly the lifetimes that must outlive `a`
    under the recorded bounds (including `a` itself), whatever the graph — cycles included. -/
theorem allLonger_spec (g : Graph) (a x : Nat) : x ∈ allLonger g a ↔ Reach g a x := by
  obtain ⟨r, hr⟩ := allLonger_total g a
  unfold allLonger
  rw [hr]
  exact dfs_spec g (fuelFor g) a r hr x

theorem allLonger_fuel_enough (g : Graph) (a : Nat) : (dfs g (fuelFor g) [a] []).isSome = true := by
  obtain ⟨r, hr⟩ := allLonger_total g a
  simp [hr]

/-- lifetime-carrying parameters are opaques, slices or structs, possibly optional (an invariant of lowering) -/
def WellKinded (p : Param) : Prop :=
  p.kind.unwrapOption = .opaque ∨ p.kind.unwrapOption = .slice ∨ p.kind.unwrapOption = .struct
  ∨ (∀ lt ∈ p.lts, lt = none)

/-- the analysis never reaches its `unreachable!` arm on such parameters -/
theorem visit_no_panic (longer : List Nat) (p : Param) (h : WellKinded p) : (visitParam longer p).isSome = true := by
  unfold visitParam
  rcases h with h | h | h | h
  · simp [h]; split <;> simp
  · simp [h]; split <;> simp
  · simp [h]
  · have hany : p.lts.any (ltIn longer) = false := by
      rw [List.any_eq_false]
      intro lt hlt
      rw [h lt hlt]; simp [ltIn]
    cases hk : p.kind.unwrapOption
    case struct => simp
    all_goals (simp only []; rw [if_neg (by rw [hany]; simp)]; rfl)

/-- **Exactness for opaque and slice parameters (optional or not).** The parameter gets an edge for output
    lifetime `L` iff its type mentions a lifetime that must outlive `L`. `'static` never produces an edge. -/
theorem nonstruct_edge_iff (g : Graph) (L : Nat) (p : Param)
    (hk : p.kind.unwrapOption = .opaque ∨ p.kind.unwrapOption = .slice) :
    ∃ es, visitParam (allLonger g L) p = some es ∧
      ((∃ e ∈ es, e.param = p.name) ↔ ∃ l, some l ∈ p.lts ∧ Reach g L l) := by
  have hany : p.lts.any (ltIn (allLonger g L)) = true
      ↔ ∃ l, some l ∈ p.lts ∧ Reach g L l := by
    rw [List.any_eq_true]
    constructor
    · rintro ⟨lt, hlt, hm⟩
      cases lt with
      | none => simp [ltIn] at hm
      | some l => exact ⟨l, hlt, (allLonger_spec g L l).mp (by simpa [ltIn] using hm)⟩
    · rintro ⟨l, hl, hr⟩
      exact ⟨some l, hl, by simpa [ltIn] using (allLonger_spec g L l).mpr hr⟩
  unfold visitParam
  rcases hk with hk | hk <;> rw [hk] <;> simp only
  all_goals (
    by_cases ha : p.lts.any (ltIn (allLonger g L)) = true
    · rw [if_pos ha]
      exact ⟨_, rfl, ⟨fun _ => hany.mp ha, fun _ => ⟨_, List.mem_singleton.mpr rfl, rfl⟩⟩⟩
    · rw [if_neg ha]
      refine ⟨[], rfl, ⟨fun h => by simp at h, fun h => absurd (hany.mpr h) ha⟩⟩)

/-- **Exactness for struct parameters.** A struct parameter gets one edge per lifetime slot `i` of its
    definition whose use-site lifetime must outlive `L` — no more, no fewer. -/
theorem struct_edge_iff (g : Graph) (L : Nat) (p : Param) (hk : p.kind.unwrapOption = .struct) (i : Nat) :
    ∃ es, visitParam (allLonger g L) p = some es ∧
      (⟨p.name, .structLt i⟩ ∈ es ↔ ∃ l, p.lts[i]? = some (some l) ∧ Reach g L l) := by
  unfold visitParam
  rw [hk]
  refine ⟨_, rfl, ?_⟩
  simp only [List.mem_filterMap]
  constructor
  · rintro ⟨⟨lt, j⟩, hmem, hsome⟩
    cases lt with
    | none => simp at hsome
    | some l =>
      by_cases hl : l ∈ allLonger g L
      · simp only [hl, if_true, Option.some.injEq, Edge.mk.injEq, EdgeKind.structLt.injEq, true_and] at hsome
        subst hsome
        have := List.mem_zipIdx hmem
        refine ⟨l, ?_, (allLonger_spec g L l).mp hl⟩
        simp at this
        rw [List.getElem?_eq_getElem this.1]; simp [this.2]
      · simp [hl] at hsome
  · rintro ⟨l, hl, hr⟩
    refine ⟨(some l, i), ?_, by simp [(allLonger_spec g L l).mpr hr]⟩
    rw [List.mem_zipIdx_iff_getElem?]
    simpa using hl

/-- only lifetimes used by the return type get an entry, in increasing order, with their full longer-set -/
theorem borrowMap_keys (g : Graph) (used : List Nat) (ps : List Param) (m : List (Nat × List Nat × List Edge))
    (h : borrowMap g used ps = some m) : m.map (·.1) = used ∧ ∀ e ∈ m, e.2.1 = allLonger g e.1 := by
  unfold borrowMap at h
  induction used generalizing m with
  | nil => simp [optMapM] at h; subst h; simp
  | cons u us ih =>
    simp only [optMapM] at h
    cases he : edgesFor (allLonger g u) ps with
    | none => simp [he] at h
    | some es =>
      cases hr : optMapM (fun l => (edgesFor (allLonger g l) ps).map fun es => (l, allLonger g l, es)) us with
      | none => simp [he, hr] at h
      | some rest =>
        simp [he, hr] at h
        subst h
        obtain ⟨h1, h2⟩ := ih rest hr
        refine ⟨by simp [h1], ?_⟩
        intro e hmem
        rcases List.mem_cons.mp hmem with rfl | hmem
        · rfl
        · exact h2 e hmem

/-! non-vacuity: `fn f<'a, 'b: 'a>(&'b self, x: &'a [u8]) -> &'a Op`: both inputs are edges of `'a`
    (self because `'b: 'a`), a cycle `'a: 'b, 'b: 'a` terminates, `'static` gives nothing -/
def gEx : Graph := astGraph ⟨2, [(1, 0)], [.ref (some 1) (.named []), .other, .ref (some 0) (.named [])]⟩
example : allLonger gEx 0 = [1, 0] := by decide
example : edgesFor (allLonger gEx 0) [⟨"this", .opaque, [some 1]⟩, ⟨"x", .slice, [some 0]⟩, ⟨"s", .slice, [none]⟩]
    = some [⟨"this", .opaque⟩, ⟨"x", .slice⟩] := by decide
example : (allLonger (astGraph ⟨2, [(1, 0), (0, 1)], []⟩) 0).length = 2 := by decide

/-! ### borrowing structs nested in borrowing structs (`compute_for_struct_field`, the `_fieldsForLifetimeX` getters) -/

/-- **Exactly the inner definition lifetimes instantiated with `x`.** The getter of the outer struct for its lifetime
    `x` spreads, for a struct-typed field instantiated with `args`, the inner getter of definition lifetime `i` iff the
    `i`-th argument is `x` — also when `x` fills several positions (`Pair<'a, 'a>`) or the positions are crossed;
    a `'static` argument (`none`) never contributes. -/
theorem nested_field_exact (args : List (Option Nat)) (x i : Nat) :
    i ∈ fieldDefLts args x ↔ args[i]? = some (some x) := by
  unfold fieldDefLts
  simp only [List.mem_filterMap, List.mem_zipIdx_iff_getElem?, Prod.exists]
  constructor
  · rintro ⟨a, j, hj, h⟩
    by_cases ha : a = some x
    · simp [ha] at h; subst h; simpa [ha] using hj
    · simp [ha] at h
  · intro h
    exact ⟨some x, i, by simpa using h, by simp⟩

/-- … for every field of the struct: nothing that is borrowed under `x` through a nested struct is left out of the
    getter, and nothing else is put in -/
theorem nested_getter_exact (fields : List (String × List (Option Nat))) (x : Nat) (f : String) (i : Nat) :
    (f, i) ∈ nestedGetter fields x ↔ ∃ args, (f, args) ∈ fields ∧ args[i]? = some (some x) := by
  unfold nestedGetter
  simp only [List.mem_flatMap, List.mem_map, Prod.mk.injEq]
  constructor
  · rintro ⟨⟨g, args⟩, hmem, j, hj, rfl, rfl⟩
    exact ⟨args, hmem, (nested_field_exact args x j).mp hj⟩
  · rintro ⟨args, hmem, h⟩
    exact ⟨(f, args), hmem, i, (nested_field_exact args x i).mpr h, rfl, rfl⟩

example : nestedGetter [("pair", [some 1, some 0]), ("other", [some 0, some 0]), ("fixed", [none, some 1])] 0
    = [("pair", 1), ("other", 0), ("other", 1)] := by decide

open DiplomatModel.JsArena in
/-- **JS runtime: the buffer's owner is reachable from every edge array it was created for.**  The arena
    `CleanupArena.createWith(...edgeArrays)` returns is on each (non-null) array given — so whoever holds that array
    keeps the wasm buffer alive — in whatever state earlier calls left the arrays … -/
theorem arena_on_every_edge_array (s : St) (call : List (Option Nat)) (i : Nat)
    (hi : some i ∈ call) (hl : i < s.arrays.length) :
    ∃ l, (createWith s call).1.arrays[i]? = some l ∧ (createWith s call).2 ∈ l := by
  simpa [createWith] using pushAll_mem s.arrays s.next call i hi hl

open DiplomatModel.JsArena in
/-- … and no later call takes it off again. -/
theorem arena_stays_on_edge_array (s : St) (call : List (Option Nat)) (later : List (List (Option Nat))) (i : Nat)
    (hi : some i ∈ call) (hl : i < s.arrays.length) :
    ∃ l, (runCalls (createWith s call).1 later).arrays[i]? = some l ∧ (createWith s call).2 ∈ l :=
  runCalls_keeps _ later i _ (arena_on_every_edge_array s call i hi hl)

open DiplomatModel.JsArena in
/-- two slice fields of one struct, the second one's list of arrays starting like the first one's -/
example : (runCalls ⟨[[], []], 0⟩ [[some 0], [some 0, some 1]]).arrays = [[0, 1], [1]] := by decide

end DiplomatModel.Props.C04
