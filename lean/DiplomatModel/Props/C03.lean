/-
  C03 — every value moved across the boundary is destroyed exactly once (PARTIAL: the Rust side).

  The model is an ownership ledger (`Own.lean`): owners hold payload ids; `create`, `convert` (From/Into
  between the std and the FFI-safe representation), `clone`, `borrow` and `drop` are the operations the
  runtime types and the macro-generated `_destroy` functions offer.  Proved here for operation sequences
  of any length: at every reachable state live and dropped payloads together are a permutation of the
  payloads created so far — nothing is dropped twice, nothing is lost — and once every remaining owner
  is released each created payload has been dropped exactly once.

  Not modelled: what foreign code does with a pointer after handing it back (use after free on the
  foreign side), and the generated destructors/finalizers of the C++/JS/Dart/Kotlin wrappers beyond the
  textual tie the harness checks.
-/
import DiplomatModel.Lemmas.Own
namespace DiplomatModel.Props.C03
open DiplomatModel.Own

/-- **No double drop, at any point of any history**: the drop log never holds a payload twice, and no
    dropped payload is still owned by a live owner. -/
theorem never_dropped_twice (ops : List Op) (s : St) (hr : run St.init ops = some s) :
    s.dropped.Nodup ∧ ∀ p ∈ s.dropped, p ∉ allLive s.live := by
  have hl := ledger_run St.init s ops ledger_init hr
  have hn : (allLive s.live ++ s.dropped).Nodup := hl.nodup_iff.mpr List.nodup_range
  rw [List.nodup_append] at hn
  refine ⟨hn.2.1, ?_⟩
  intro p hp hq
  exact hn.2.2 p hq p hp rfl

/-- **No owner shares a payload with another** (no aliasing of owned values on the Rust side). -/
theorem live_payloads_distinct (ops : List Op) (s : St) (hr : run St.init ops = some s) :
    (allLive s.live).Nodup := by
  have hl := ledger_run St.init s ops ledger_init hr
  have hn : (allLive s.live ++ s.dropped).Nodup := hl.nodup_iff.mpr List.nodup_range
  exact (List.nodup_append.mp hn).1

/-- **Nothing leaks silently**: a payload created so far is either still owned or in the drop log. -/
theorem created_is_live_or_dropped (ops : List Op) (s : St) (hr : run St.init ops = some s) (p : Nat)
    (hp : p < s.nextP) : p ∈ allLive s.live ∨ p ∈ s.dropped := by
  have hl := ledger_run St.init s ops ledger_init hr
  have : p ∈ allLive s.live ++ s.dropped := hl.mem_iff.mpr (List.mem_range.mpr hp)
  exact List.mem_append.mp this

/-- **Exactly once**: after any history, once the remaining owners are released, the drop log is a
    permutation of all payloads ever created … -/
theorem dropAll_perm (ops : List Op) (s : St) (hr : run St.init ops = some s) :
    (dropAll s).dropped.Perm (List.range s.nextP) := by
  have hl := ledger_run St.init s ops ledger_init hr
  unfold dropAll
  exact List.perm_append_comm.trans hl

/-- … so each created payload occurs in it exactly once and nothing else occurs at all. -/
theorem exactly_once (ops : List Op) (s : St) (hr : run St.init ops = some s) (p : Nat) :
    (dropAll s).dropped.count p = if p < s.nextP then 1 else 0 := by
  rw [(dropAll_perm ops s hr).count_eq p, List.nodup_range.count]
  simp [List.mem_range]

/-- a `convert` (the `From` impls) neither creates nor destroys: the drop log and the set of created
    payloads are untouched, the payloads just change owner -/
theorem convert_moves (s s' : St) (h : Nat) (hs : step s (.convert h) = some s') :
    s'.dropped = s.dropped ∧ s'.nextP = s.nextP ∧ (allLive s'.live).Perm (allLive s.live) := by
  simp only [step] at hs
  cases ht : takeH s.live h with
  | none => simp [ht] at hs
  | some r =>
    obtain ⟨ps, rest⟩ := r
    simp only [ht, Option.some.injEq] at hs
    subst hs
    refine ⟨rfl, rfl, ?_⟩
    have hp := takeH_perm s.live h ps rest ht
    simp only [allLive_append]
    have : allLive [(s.nextH, ps)] = ps := by simp [allLive]
    rw [this]
    exact List.perm_append_comm.trans hp.symm

/-- a `drop` logs exactly the payloads of that owner -/
theorem drop_logs_owner (s s' : St) (h : Nat) (hs : step s (.drop h) = some s') :
    ∃ ps rest, takeH s.live h = some (ps, rest) ∧ s'.dropped = s.dropped ++ ps ∧ s'.live = rest := by
  simp only [step] at hs
  cases ht : takeH s.live h with
  | none => simp [ht] at hs
  | some r =>
    obtain ⟨ps, rest⟩ := r
    simp only [ht, Option.some.injEq] at hs
    subst hs
    exact ⟨ps, rest, rfl, rfl, rfl⟩

/-! non-vacuity: a history with conversions, a clone and an explicit drop is well formed, and the
    theorem's conclusion is what the driver prints for it -/
example : (run St.init [.create 1, .convert 0, .clone 1, .create 3, .drop 1, .convert 3]).isSome = true := by decide
example : ((run St.init [.create 1, .convert 0, .clone 1, .create 3, .drop 1, .convert 3]).map
    fun s => (dropAll s).dropped) = some [0, 1, 2, 3, 4] := by decide
/-- the pre-fix behaviour of `From<DiplomatResult> for Result` (payload 0 dropped by the moved-from
    wrapper *and* by the new owner) is not a run of the model: its log `[0, 0]` has a duplicate -/
example : ¬ ([0, 0] : List Nat).Nodup := by decide

end DiplomatModel.Props.C03
