/-
  C14 — output is a deterministic, order-independent, local function of the bridge (PARTIAL: the environment
  and the one-file-per-type structure are modelled; what each backend writes into a file is an abstract
  `render` that sees a type's own entry and what the names it mentions resolve to).

  Proved for item lists and files of any length:
  * order independence inside a bridge module: two item sequences that agree, for every type name, on the
    subsequence of items about that name (its declaration and its impl blocks, in their relative order) give
    the same type map — or both make `from_syn` panic; how the items of different types interleave is irrelevant;
  * the same at the file level for modules;
  * locality: inserting or removing a type that a type `u` does not mention leaves `u`'s entry and everything
    a generator may read for `u` unchanged, hence `u`'s file;
  * items that are not modules, and everything inside non-bridge modules, never reach the environment.
  Determinism is a property of the real code only (the model is a function); it rests on the tie.
-/
import DiplomatModel.Lemmas.EnvOrder
import DiplomatModel.HashBaseline
import DiplomatModel.Generated.HashSites
namespace DiplomatModel.Props.C14
open DiplomatModel.EnvOrder Std

/-- "same bridge module up to interleaving": for every name the items about it are the same, in the same order -/
def SameUpToInterleaving (a b : List Item) : Prop := ∀ n, a.filter (Item.about n) = b.filter (Item.about n)

def SameTopsUpToInterleaving (a b : List Top) : Prop := ∀ n, a.filter (Top.about n) = b.filter (Top.about n)

/-- **Type order inside a bridge module does not matter**, panics included. -/
theorem module_order_independent (a b : List Item) (h : SameUpToInterleaving a b) :
    fromItems a = fromItems b := by
  unfold fromItems
  cases ha : runItems [] a with
  | none =>
    obtain ⟨n, hn⟩ := (runItems_none_iff [] a).mp ha
    rw [failsFor_filter, h n, ← failsFor_filter] at hn
    exact ((runItems_none_iff [] b).mpr ⟨n, hn⟩).symm
  | some ma =>
    cases hb : runItems [] b with
    | none =>
      obtain ⟨n, hn⟩ := (runItems_none_iff [] b).mp hb
      rw [failsFor_filter, ← h n, ← failsFor_filter] at hn
      have := (runItems_none_iff [] a).mpr ⟨n, hn⟩
      rw [ha] at this; cases this
    | some mb =>
      congr 1
      apply sorted_ext (runItems_sorted sorted_nil ha) (runItems_sorted sorted_nil hb)
      intro n
      rw [runItems_find ha n, runItems_find hb n, proj_filter, h n, ← proj_filter]

/-- **Module order in the file does not matter** (and neither does where non-module items sit). -/
theorem file_order_independent (a b : List Top) (h : SameTopsUpToInterleaving a b) :
    fromFile a = fromFile b := by
  unfold fromFile
  have hall : a.all Top.ok = b.all Top.ok := by
    have key : ∀ (x y : List Top), SameTopsUpToInterleaving x y → x.all Top.ok = true → y.all Top.ok = true := by
      intro x y hxy hx
      rw [List.all_eq_true] at hx ⊢
      intro t ht
      cases t with
      | bridge n items =>
        have : Top.bridge n items ∈ y.filter (Top.about n) := by
          simp [List.mem_filter, ht, Top.about]
        rw [← hxy n] at this
        exact hx _ (List.mem_filter.mp this).1
      | plain n => rfl
      | other => rfl
    cases hx : a.all Top.ok with
    | true => exact (key a b h hx).symm
    | false =>
      cases hy : b.all Top.ok with
      | false => rfl
      | true => rw [key b a (fun n => (h n).symm) hy] at hx; cases hx
  cases ha : runTops [] a with
  | none =>
    have h1 := runTops_isSome [] a
    rw [ha, hall, ← runTops_isSome [] b] at h1
    cases hb : runTops [] b with
    | none => rfl
    | some fb => rw [hb] at h1; cases h1
  | some fa =>
    have h1 := runTops_isSome [] a
    rw [ha, hall, ← runTops_isSome [] b] at h1
    cases hb : runTops [] b with
    | none => rw [hb] at h1; cases h1
    | some fb =>
      congr 1
      apply sorted_ext (runTops_sorted sorted_nil ha) (runTops_sorted sorted_nil hb)
      intro n
      rw [runTops_find ha n, runTops_find hb n, projTop_filter, h n, ← projTop_filter]

/-- the file a generator writes for type `u` of module map `m` -/
def fileOf (render : String → Entry → List (String × Option TyDef) → String) (m : TypeMap) (u : String) : Option String :=
  (find u m).map fun e => render u e (resolved m e)

/-- **Locality.** If two bridge modules agree on everything about every name except `t` (so: `t` was added,
    removed or changed), then the file of any other type `u` that does not mention `t` is the same. -/
theorem unrelated_type_local (render : String → Entry → List (String × Option TyDef) → String)
    (a b : List Item) (ma mb : TypeMap) (t u : String)
    (ha : fromItems a = some ma) (hb : fromItems b = some mb)
    (hsame : ∀ n, n ≠ t → a.filter (Item.about n) = b.filter (Item.about n))
    (hu : u ≠ t) (hnoref : ∀ e, find u ma = some e → t ∉ e.d.refs) :
    fileOf render ma u = fileOf render mb u := by
  have hfind : ∀ n, n ≠ t → find n ma = find n mb := by
    intro n hn
    rw [runItems_find ha n, runItems_find hb n, proj_filter, hsame n hn, ← proj_filter]
  unfold fileOf
  rw [← hfind u hu]
  cases he : find u ma with
  | none => rfl
  | some e =>
    simp only [Option.map_some, Option.some.injEq]
    congr 1
    unfold resolved
    apply List.map_congr_left
    intro r hr
    have hrt : r ≠ t := fun h => hnoref e he (h ▸ hr)
    rw [hfind r hrt]

/-- **Code outside modules is never looked at**: dropping every top-level item that is not a module changes nothing. -/
theorem non_module_items_ignored (tops : List Top) :
    fromFile tops = fromFile (tops.filter fun t => match t with | .other => false | _ => true) := by
  apply file_order_independent
  intro n
  rw [List.filter_filter]
  apply List.filter_congr
  intro t _
  cases t <;> simp [Top.about]

/-- **Non-bridge modules declare nothing**: whatever such a module contains, it contributes an empty type map,
    so `allTypes` (and with it every emitted file) does not see it. -/
theorem plain_module_declares_nothing (f : FileMap) (n : String) :
    stepTop f (.plain n) = some (ins n [] f) ∧
    ∀ f' : FileMap, (∀ x ∈ f', x.1 = n → x.2 = []) →
      allTypes f' = allTypes (f'.filter fun x => x.1 != n) := by
  refine ⟨rfl, ?_⟩
  intro f' hf
  induction f' with
  | nil => rfl
  | cons hd tl ih =>
    have htl := ih fun x hx => hf x (List.mem_cons_of_mem _ hx)
    by_cases he : hd.1 = n
    · have : hd.2 = [] := hf hd (by simp) he
      obtain ⟨mn, m⟩ := hd
      simp only at he this
      subst he this
      simp only [allTypes, List.flatMap_cons, List.map_nil, List.nil_append, List.filter_cons, bne_self_eq_false,
        Bool.false_eq_true, if_false] at htl ⊢
      exact htl
    · obtain ⟨mn, m⟩ := hd
      simp only at he
      have hb : (mn != n) = true := by simp [he]
      simp only [allTypes, List.flatMap_cons, List.filter_cons, hb, if_true] at htl ⊢
      rw [htl]

/-- **No unreviewed hash-ordered container**: the scan of /repo's current source equals the reviewed list. -/
theorem hash_sites_match_baseline :
    DiplomatModel.Generated.HashSites.scanned =
      DiplomatModel.HashBaseline.baseline.map (fun x => (x.1, x.2.1, x.2.2.1, x.2.2.2.1)) := by rfl

/-! non-vacuity: two interleavings of the same module that really differ, and a module where an impl comes first -/
def ex1 : List Item := [.ty "B" ⟨"opaque", []⟩, .ty "A" ⟨"struct", ["B"]⟩, .impl "A" ["m1"], .impl "B" ["n1"], .impl "A" ["m2"]]
def ex2 : List Item := [.ty "A" ⟨"struct", ["B"]⟩, .impl "A" ["m1"], .impl "A" ["m2"], .other, .ty "B" ⟨"opaque", []⟩, .impl "B" ["n1"]]

example : fromItems ex1 = fromItems ex2 := by decide
example : (fromItems ex1).map (fun m => m.map fun x => (x.1, x.2.methods)) = some [("A", ["m1", "m2"]), ("B", ["n1"])] := by decide
example : fromItems [.impl "A" ["m"], .ty "A" ⟨"opaque", []⟩] = none := by decide
/-- swapping two impl blocks of the *same* type is not covered by the theorem, and indeed changes the result -/
example : fromItems [.ty "A" ⟨"o", []⟩, .impl "A" ["m1"], .impl "A" ["m2"]] ≠
          fromItems [.ty "A" ⟨"o", []⟩, .impl "A" ["m2"], .impl "A" ["m1"]] := by decide

end DiplomatModel.Props.C14
