/-
  C01 — the Rust `extern "C"` layer and the generated C headers agree on the ABI.

  `rAbi ∘ paramTy / retTy / toSyn` is what the proc macro's Rust types mean on the wire; `cAbi ∘ cTy / cRetTy`
  is what the C backend's types mean, through the runtime header's macro instantiations.  The theorems say
  that, for every type the lowering gate accepts (any nesting), both descriptions exist and are equal —
  position by position: parameters, `self`, struct fields, return values including the arm structure of
  results and options.  Tables (`primAsC`, `primDerived`, `capiInstances`, the runtime's `#[repr(C)]` field
  lists, the template typedefs) are regenerated from /repo on every run, so the kernel re-checks these
  statements against what the source says now.
-/
import DiplomatModel.AbiGen
import DiplomatModel.Props.C05
import DiplomatModel.Lemmas.Wire
namespace DiplomatModel.Props.C01
open DiplomatModel.Lower DiplomatModel.AbiGen DiplomatModel.Generated.AbiTables DiplomatModel.Props.C05
open DiplomatModel.Abi

/-- 128-bit integers have no C spelling (documented; the formatter refuses them) -/
def has128 : TyName → Bool
  | .prim p => is128 p
  | .opt t _ => has128 t
  | .primSlice _ p _ => is128 p
  | _ => false

/-- `DiplomatOption<&[T]>` / `DiplomatOption<&str>`: a Diplomat-spelled option around a std-spelled slice.
    The macro's parameter conversion does not type-check for it (known finding F22 under C09), so no
    library containing it exists. -/
def dipOptOfStdSlice : TyName → Bool
  | .opt (.strRef _ _ .std) .dip => true
  | .opt (.primSlice _ _ .std) .dip => true
  | .opt (.strSlice _ .std) .dip => true
  | _ => false

/-! ### tables -/

/-- Every primitive's C spelling (regenerated `fmt_primitive_as_c`) means what the Rust primitive means:
    same width, same signedness, same float kind, `bool` for `bool`. -/
theorem prim_abi_agree (p : Prim) (h : is128 p = false) :
    (cPrimName p).bind cNameAbi = some (rustPrimAbi p) := by
  cases p <;> first | (simp [is128] at h; done) | decide

/-- The option / slice struct families of the runtime header exist for every primitive, under the name
    the formatter derives (regenerated `fmt_primitive_name_for_derived_type` and `MAKE_SLICES_AND_OPTIONS`
    instantiations), and their element type is the primitive's. -/
theorem derived_instance_agree (p : Prim) (h : is128 p = false) :
    ((derivedName p).bind instanceTy).bind cNameAbi = some (rustPrimAbi p) := by
  cases p <;> first | (simp [is128] at h; done) | decide

/-- The string view families exist. -/
theorem string_instances :
    (instanceTy "String").isSome = true ∧ (instanceTy "String16").isSome = true
    ∧ (instanceTy "Strings").isSome = true ∧ (instanceTy "Strings16").isSome = true := by decide

theorem inst_string : ∃ c, instanceTy "String" = some c := by
  have := string_instances.1; cases h : instanceTy "String" <;> simp_all
theorem inst_string16 : ∃ c, instanceTy "String16" = some c := by
  have := string_instances.2.1; cases h : instanceTy "String16" <;> simp_all
theorem inst_strings : ∃ c, instanceTy "Strings" = some c := by
  have := string_instances.2.2.1; cases h : instanceTy "Strings" <;> simp_all
theorem inst_strings16 : ∃ c, instanceTy "Strings16" = some c := by
  have := string_instances.2.2.2; cases h : instanceTy "Strings16" <;> simp_all

/-- **Runtime types agree.** The `#[repr(C)]` structs of diplomat-runtime and the C runtime header describe
    the same layouts: slices are `{pointer, length}` in this order in all three Rust types and in all three
    C view structs; the result is `{union, bool}` with `ok`/`err` in the union; the option structs of the C
    header are `{union {T ok}, bool is_ok}`; callbacks are `{data, run_callback, destructor}`; the
    wrapper string types are transparent; `DiplomatOption<T>` *is* `DiplomatResult<T, ()>`. -/
theorem runtime_types_agree :
    (rtSliceReprC && rtSliceMutReprC && rtOwnedSliceReprC && rtResultReprC && rtResultValueReprC && rtCallbackReprC) = true
    ∧ (layoutOf rtSliceFields).map (·.2.1) = [Slot.ptr, Slot.usize]
    ∧ (layoutOf rtSliceMutFields).map (·.2.1) = [Slot.ptr, Slot.usize]
    ∧ (layoutOf rtOwnedSliceFields).map (·.2.1) = [Slot.ptr, Slot.usize]
    ∧ rtResultFields.map (·.1) = ["value", "is_ok"] ∧ (rtResultFields.map (·.2.slot)).getLast? = some Slot.bool
    ∧ rtResultValueFields.map (·.1) = ["ok", "err"]
    ∧ (layoutOf rtCallbackFields).map (fun f => (f.1, f.2.1)) = [("data", Slot.ptr), ("run_callback", Slot.fnptr), ("destructor", Slot.fnptr)]
    ∧ capi_MAKE_SLICES = "#define MAKE_SLICES(name, c_ty) typedef struct Diplomat##name##View { const c_ty* data; size_t len; } Diplomat##name##View; typedef struct Diplomat##name##ViewMut { c_ty* data; size_t len; } Diplomat##name##ViewMut; typedef struct Diplomat##name##Array { const c_ty* data; size_t len; } Diplomat##name##Array;"
    ∧ capi_MAKE_SLICES_AND_OPTIONS = "#define MAKE_SLICES_AND_OPTIONS(name, c_ty) MAKE_SLICES(name, c_ty) typedef struct Option##name {union { c_ty ok; }; bool is_ok; } Option##name; typedef struct Option##name##View {union { Diplomat##name##View ok; }; bool is_ok; } Option##name##View; typedef struct Option##name##ViewMut {union { Diplomat##name##ViewMut ok; }; bool is_ok; } Option##name##ViewMut; typedef struct Option##name##Array {union { Diplomat##name##Array ok; }; bool is_ok; } Option##name##Array;"
    ∧ structOptionTypedef = "typedef struct {{ ty_name }}_option {union { {{ty_name}} ok; }; bool is_ok; } {{ ty_name }}_option;"
    ∧ enumOptionTypedef = structOptionTypedef
    ∧ callbackStructTemplate = "typedef struct {{ cb_and_struct_def.name }} { const void* data; {{ cb_and_struct_def.return_type }} (*run_callback)(const void*{% if cb_and_struct_def.params_types != \"\" %}, {{ cb_and_struct_def.params_types }} {% endif %}); void (*destructor)(const void*);"
    ∧ (utf8StrSliceTransparent && ownedUtf8StrSliceTransparent && strSliceAlias && ownedStrSliceAlias
        && str16SliceAlias && ownedStr16SliceAlias && optionAlias) = true := by
  decide +kernel

/-! ### helper facts -/

theorem isOpaque_named {env : Env} {t : TyName} (h : isOpaque env t = true) :
    ∃ n, t = .named n ∧ isOpaqueName env n = true := by
  cases t <;> simp [isOpaque] at h
  rename_i n
  refine ⟨n, rfl, ?_⟩
  unfold isOpaqueName
  split at h <;> simp_all

theorem cPrim_some (p : Prim) (h : is128 p = false) :
    ∃ c, cPrimName p = some c ∧ cNameAbi c = some (rustPrimAbi p) := by
  have := prim_abi_agree p h
  cases hc : cPrimName p with
  | none => simp [hc] at this
  | some c => exact ⟨c, rfl, by simpa [hc] using this⟩

theorem derived_some (p : Prim) (h : is128 p = false) :
    ∃ d, derivedName p = some d ∧ (instanceTy d).bind cNameAbi = some (rustPrimAbi p) := by
  have := derived_instance_agree p h
  cases hc : derivedName p with
  | none => simp [hc] at this
  | some d => exact ⟨d, rfl, by simpa [hc] using this⟩

theorem derived_instance_some (p : Prim) (h : is128 p = false) :
    ∃ d c, derivedName p = some d ∧ instanceTy d = some c := by
  obtain ⟨d, hd, hi⟩ := derived_some p h
  cases hc : instanceTy d with
  | none => simp [hc] at hi
  | some c => exact ⟨d, c, hd, hc⟩

theorem rustPrimAbi_ne_nil (p : Prim) : rustPrimAbi p ≠ [] := by cases p <;> simp [rustPrimAbi]
theorem viewAbi_ne_nil : viewAbi ≠ [] := by decide

/-! ### parameters -/

/-- **Parameter types agree.** For every type the gate accepts in parameter position — any nesting of
    options around primitives, enums, structs, slices, strings, slices of strings, opaque references — the C
    backend has a type for it, both wire meanings are defined, and they are equal.
    `_partial`: 128-bit integers (no C spelling), the F22 shape (does not compile) and callbacks (see
    `callback_param_agree`) are excluded by hypothesis. -/
theorem param_agree_partial (env : Env) (sup : Support) (t : TyName)
    (h : InOk env sup false t) (h128 : has128 t = false) (hf22 : dipOptOfStdSlice t = false)
    (hfn : ∀ ps r, t ≠ .fn ps r) :
    ∃ c, cTy env t = some c ∧ rAbi env (paramTy t) = cAbi c ∧ (cAbi c).isSome = true := by
  cases h with
  | prim _ p =>
    obtain ⟨c, hc, ha⟩ := cPrim_some p (by simpa [has128] using h128)
    exact ⟨.prim c, by simp [cTy, hc], by simp [paramTy, toSyn, rAbi, cAbi, cAbiSimple, ha], by simp [cAbi, cAbiSimple, ha]⟩
  | struct _ n fields hg hne =>
    exact ⟨.structTy n, by simp [cTy, hg], by simp [paramTy, toSyn, rAbi, cAbi, cAbiSimple, hg, hne], by simp [cAbi, cAbiSimple]⟩
  | enum _ n hg =>
    exact ⟨.enumTy n, by simp [cTy, hg], by simp [paramTy, toSyn, rAbi, cAbi, cAbiSimple, hg], by simp [cAbi, cAbiSimple]⟩
  | refOpaque _ lt m t ho =>
    obtain ⟨n, rfl, hn⟩ := isOpaque_named ho
    exact ⟨.opaquePtr (!m) n, by simp [cTy, hn], by simp [paramTy, toSyn, rAbi, cAbi, cAbiSimple, isPtrTo], by simp [cAbi, cAbiSimple]⟩
  | optRefOpaque _ lt m t ho =>
    obtain ⟨n, rfl, hn⟩ := isOpaque_named ho
    exact ⟨.opaquePtr (!m) n, by simp [cTy, hn], by simp [paramTy, isFfiSafe, toSyn, rAbi, cAbi, cAbiSimple, isPtrTo], by simp [cAbi, cAbiSimple]⟩
  | optNamed _ n sd hno _ _ hin =>
    cases hin with
    | struct _ _ fields hg hne =>
      refine ⟨.optNamed n false, by simp [cTy, hg], ?_, by simp [cAbi, cAbiSimple]⟩
      cases sd <;> simp [paramTy, isFfiSafe, ffiSafeVersion, toSyn, rAbi, cAbi, cAbiSimple, hg, hne]
    | enum _ _ hg =>
      refine ⟨.optNamed n true, by simp [cTy, hg], ?_, by simp [cAbi, cAbiSimple]⟩
      cases sd <;> simp [paramTy, isFfiSafe, ffiSafeVersion, toSyn, rAbi, cAbi, cAbiSimple, hg]
  | optPrim _ p sd _ _ =>
    obtain ⟨d, hd, ha⟩ := derived_some p (by simpa [has128] using h128)
    have hne := rustPrimAbi_ne_nil p
    refine ⟨.optPrim d, by simp [cTy, hd], ?_, by simp [cAbi, cAbiSimple, ha]⟩
    cases sd <;> simp [paramTy, isFfiSafe, ffiSafeVersion, toSyn, rAbi, cAbi, cAbiSimple, ha, rArm_ne hne]
  | optStrs _ e s sd _ =>
    obtain ⟨c8, h8⟩ := inst_strings
    obtain ⟨c16, h16⟩ := inst_strings16
    refine ⟨.optStrsView (isU16 e), by simp [cTy], ?_, by cases hu : isU16 e <;> simp [cAbi, cAbiSimple, h8, h16]⟩
    cases sd <;> cases s <;> simp [dipOptOfStdSlice] at hf22 <;>
      cases hu : isU16 e <;> simp [paramTy, isFfiSafe, ffiSafeVersion, toSyn, rAbi, cAbi, cAbiSimple, hu, rArm_ne viewAbi_ne_nil, h8, h16]
  | optStr _ lt e s sd _ _ =>
    obtain ⟨c8, h8⟩ := inst_string
    obtain ⟨c16, h16⟩ := inst_string16
    refine ⟨.optStrView (isU16 e), by simp [cTy], ?_, by cases hu : isU16 e <;> simp [cAbi, cAbiSimple, h8, h16]⟩
    cases sd <;> cases s <;> simp [dipOptOfStdSlice] at hf22 <;>
      cases hu : isU16 e <;> simp [paramTy, isFfiSafe, ffiSafeVersion, toSyn, rAbi, cAbi, cAbiSimple, hu, rArm_ne viewAbi_ne_nil, h8, h16]
  | optSlice _ ltm p s sd _ _ =>
    obtain ⟨d, c, hd, hc⟩ := derived_instance_some p (by simpa [has128] using h128)
    refine ⟨.optPrimView d (sliceMut ltm), by simp [cTy, hd], ?_, by simp [cAbi, cAbiSimple, hc]⟩
    cases sd <;> cases s <;> simp [dipOptOfStdSlice] at hf22 <;>
      simp [paramTy, isFfiSafe, ffiSafeVersion, toSyn, rAbi, cAbi, cAbiSimple, hc, rArm_ne viewAbi_ne_nil]
  | str _ lt e sd _ =>
    obtain ⟨c8, h8⟩ := inst_string
    obtain ⟨c16, h16⟩ := inst_string16
    exact ⟨.strView (isU16 e), by simp [cTy], by cases hu : isU16 e <;> simp [paramTy, rAbi, cAbi, cAbiSimple, h8, h16],
      by cases hu : isU16 e <;> simp [cAbi, cAbiSimple, h8, h16]⟩
  | strs _ e sd =>
    obtain ⟨c8, h8⟩ := inst_strings
    obtain ⟨c16, h16⟩ := inst_strings16
    exact ⟨.strsView (isU16 e), by simp [cTy], by cases hu : isU16 e <;> simp [paramTy, rAbi, cAbi, cAbiSimple, h8, h16],
      by cases hu : isU16 e <;> simp [cAbi, cAbiSimple, h8, h16]⟩
  | slice _ ltm p sd _ =>
    obtain ⟨d, c, hd, hc⟩ := derived_instance_some p (by simpa [has128] using h128)
    exact ⟨.primView d (sliceMut ltm), by simp [cTy, hd], by simp [paramTy, rAbi, cAbi, cAbiSimple, hc], by simp [cAbi, cAbiSimple, hc]⟩
  | callback ps r _ _ _ => exact absurd rfl (hfn ps r)


/-! ### return values -/

/-- the payload of a returned `Result` arm / `Option`: both sides exist and contribute the same union members;
    a payload without storage contributes none on either side -/
theorem arm_agree (env : Env) (sup : Support) (t : TyName)
    (h : t = .unit ∨ OutOk env sup false true t) (h128 : has128 t = false) :
    ∃ oc a, cArm env t = some oc ∧ rAbi env (toSyn (ffiSafeVersion t)) = some a ∧ cArmAbi oc = some (rArm a) := by
  rcases h with rfl | h
  · exact ⟨none, [], by simp [cArm, isUnit], by simp [ffiSafeVersion, toSyn, rAbi], by simp [cArmAbi]⟩
  cases h with
  | prim _ _ p =>
    obtain ⟨c, hc, ha⟩ := cPrim_some p (by simpa [has128] using h128)
    exact ⟨some (.prim c), rustPrimAbi p, by simp [cArm, isUnit, isZst, cTy, hc], by simp [ffiSafeVersion, toSyn, rAbi],
      by simp [cArmAbi, cAbiSimple, ha, rArm_ne (rustPrimAbi_ne_nil p)]⟩
  | ordering _ =>
    obtain ⟨c, hc, ha⟩ := cPrim_some .i8 rfl
    exact ⟨some (.prim c), rustPrimAbi .i8, by simp [cArm, isUnit, isZst, cTy, hc], by simp [ffiSafeVersion, toSyn, rAbi],
      by simp [cArmAbi, cAbiSimple, ha, rustPrimAbi]⟩
  | struct _ _ n out fields hg hz =>
    cases hf : fields.isEmpty with
    | true =>
      exact ⟨none, [], by simp [cArm, isUnit, isZst, hg, hf], by simp [ffiSafeVersion, toSyn, rAbi, hg, hf], by simp [cArmAbi]⟩
    | false =>
      exact ⟨some (.structTy n), [.named n], by simp [cArm, isUnit, isZst, hg, hf, cTy],
        by simp [ffiSafeVersion, toSyn, rAbi, hg, hf], by simp [cArmAbi, cAbiSimple]⟩
  | enum _ _ n hg =>
    exact ⟨some (.enumTy n), [.cenum n], by simp [cArm, isUnit, isZst, hg, cTy],
      by simp [ffiSafeVersion, toSyn, rAbi, hg], by simp [cArmAbi, cAbiSimple]⟩
  | refOpaque _ _ lt m t ho =>
    obtain ⟨n, rfl, hn⟩ := isOpaque_named ho
    exact ⟨some (.opaquePtr (!m) n), [.ptr], by simp [cArm, isUnit, isZst, cTy, hn],
      by simp [ffiSafeVersion, toSyn, rAbi, isPtrTo], by simp [cArmAbi, cAbiSimple]⟩
  | boxOpaque _ _ t ho =>
    obtain ⟨n, rfl, hn⟩ := isOpaque_named ho
    exact ⟨some (.opaquePtr false n), [.ptr], by simp [cArm, isUnit, isZst, cTy, hn],
      by simp [ffiSafeVersion, toSyn, rAbi, isPtrTo], by simp [cArmAbi, cAbiSimple]⟩
  | optRefOpaque _ _ lt m t ho =>
    obtain ⟨n, rfl, hn⟩ := isOpaque_named ho
    exact ⟨some (.opaquePtr (!m) n), [.ptr], by simp [cArm, isUnit, isZst, cTy, hn],
      by simp [ffiSafeVersion, toSyn, rAbi, isPtrTo], by simp [cArmAbi, cAbiSimple]⟩
  | optBoxOpaque _ _ t ho =>
    obtain ⟨n, rfl, hn⟩ := isOpaque_named ho
    exact ⟨some (.opaquePtr false n), [.ptr], by simp [cArm, isUnit, isZst, cTy, hn],
      by simp [ffiSafeVersion, toSyn, rAbi, isPtrTo], by simp [cArmAbi, cAbiSimple]⟩
  | optNamed _ _ n sd hno _ _ hin =>
    cases hin with
    | struct _ _ _ out fields hg hz =>
      have hf : fields.isEmpty = false := by rcases hz with hz | hz <;> simp_all
      exact ⟨some (.optNamed n false), mkResult [[.named n]], by simp [cArm, isUnit, isZst, cTy, hg],
        by simp [ffiSafeVersion, toSyn, rAbi, hg, hf], by simp [cArmAbi, cAbiSimple, mkResult, mkStruct]⟩
    | enum _ _ _ hg =>
      exact ⟨some (.optNamed n true), mkResult [[.cenum n]], by simp [cArm, isUnit, isZst, cTy, hg],
        by simp [ffiSafeVersion, toSyn, rAbi, hg], by simp [cArmAbi, cAbiSimple, mkResult, mkStruct]⟩
  | optPrim _ _ p sd _ _ =>
    obtain ⟨d, hd, ha⟩ := derived_some p (by simpa [has128] using h128)
    exact ⟨some (.optPrim d), mkResult [rustPrimAbi p], by simp [cArm, isUnit, isZst, cTy, hd],
      by simp [ffiSafeVersion, toSyn, rAbi, rArm_ne (rustPrimAbi_ne_nil p)],
      by simp [cArmAbi, cAbiSimple, ha, mkResult, mkStruct]⟩
  | borrowedStr _ _ lt e sd =>
    obtain ⟨c8, h8⟩ := inst_string
    obtain ⟨c16, h16⟩ := inst_string16
    exact ⟨some (.strView (isU16 e)), viewAbi, by simp [cArm, isUnit, isZst, cTy],
      by cases sd <;> simp [ffiSafeVersion, toSyn, rAbi],
      by cases hu : isU16 e <;> simp [cArmAbi, cAbiSimple, h8, h16, rArm_ne viewAbi_ne_nil]⟩
  | borrowedSlice _ _ ltm p sd =>
    obtain ⟨d, c, hd, hc⟩ := derived_instance_some p (by simpa [has128] using h128)
    exact ⟨some (.primView d (sliceMut (some ltm))), viewAbi, by simp [cArm, isUnit, isZst, cTy, hd],
      by cases sd <;> simp [ffiSafeVersion, toSyn, rAbi],
      by simp [cArmAbi, cAbiSimple, hc, rArm_ne viewAbi_ne_nil]⟩

def has128Ret : Option TyName → Bool
  | some (.res a b _) => has128 a || has128 b
  | some t => has128 t
  | none => false

theorem ret_opt_agree (env : Env) (sup : Support) (abi : String) (v : TyName) (sd : Sd)
    (hb : ∀ b, v ≠ .box b) (hr : ∀ lt m b, v ≠ .ref lt m b) (hu : v ≠ .unit)
    (h : RetOk env sup (some (.opt v sd))) (h128 : has128 v = false) :
    ∃ c a, cRetTy env abi (some (.opt v sd)) = some c ∧ cAbi c = some a ∧ rAbi env (retTy (some (.opt v sd))) = some a := by
  have ho : OutOk env sup false true v := by cases v <;> simp_all [RetOk]
  have hc : cRetTy env abi (some (.opt v sd)) = (cArm env v).map fun a => .result abi a none := by
    cases v <;> simp_all [cRetTy]
  have hrt : retTy (some (.opt v sd)) = .dipResult (toSyn (ffiSafeVersion v)) .unit := by
    cases v <;> simp_all [retTy]
  obtain ⟨oa, a, h1, h2, h3⟩ := arm_agree env sup v (Or.inr ho) h128
  exact ⟨.result abi oa none, mkResult (rArm a), by simp [hc, h1],
    by rw [cAbi_result h3 cArmAbi_none]; simp, by simp [hrt, rAbi, h2]⟩

/-- **Return values agree.** For every return type the gate accepts — nothing, a plain value, an optional
    pointer, `Option<T>` of a non-pointer, `Result<T, E>` in either spelling with any accepted payloads —
    the C return type exists, both wire meanings are defined and equal: `void` for unit, the pointer for
    (optional) opaques, and `{union {ok; err}; bool is_ok}` with exactly the arms that have storage. -/
theorem ret_agree (env : Env) (sup : Support) (abi : String) (r : Option TyName)
    (h : RetOk env sup r) (h128 : has128Ret r = false) :
    ∃ c a, cRetTy env abi r = some c ∧ cAbi c = some a ∧ rAbi env (retTy r) = some a := by
  cases r with
  | none => exact ⟨.void, [], rfl, rfl, rfl⟩
  | some t =>
    cases t with
    | unit => exact ⟨.void, [], rfl, rfl, rfl⟩
    | res ok err sd =>
      simp only [RetOk] at h
      simp only [has128Ret, Bool.or_eq_false_iff] at h128
      obtain ⟨oa, a, h1, h2, h3⟩ := arm_agree env sup ok h.1 h128.1
      obtain ⟨ob, b, h4, h5, h6⟩ := arm_agree env sup err h.2 h128.2
      refine ⟨.result abi oa ob, mkResult (rArm a ++ rArm b), by simp [cRetTy, h1, h4], cAbi_result h3 h6, ?_⟩
      cases sd <;> simp [retTy, rAbi, h2, h5]
    | opt v sd =>
      have h128' : has128 v = false := by simpa [has128Ret, has128] using h128
      cases v with
      | box b =>
        simp only [RetOk] at h
        cases h with
        | optBoxOpaque _ _ t ho =>
          obtain ⟨n, rfl, hn⟩ := isOpaque_named ho
          exact ⟨.opaquePtr false n, [.ptr], by simp [cRetTy, cTy, hn], by simp [cAbiSimple], by simp [retTy, toSyn, rAbi, isPtrTo]⟩
      | ref lt m b =>
        simp only [RetOk] at h
        cases h with
        | optRefOpaque _ _ _ _ t ho =>
          obtain ⟨n, rfl, hn⟩ := isOpaque_named ho
          exact ⟨.opaquePtr (!m) n, [.ptr], by simp [cRetTy, cTy, hn], by simp [cAbiSimple], by simp [retTy, toSyn, rAbi, isPtrTo]⟩
      | unit =>
        exact ⟨.result abi none none, mkResult [], by simp [cRetTy, cArm, isUnit], by rw [cAbi_result cArmAbi_none cArmAbi_none]; rfl,
          by simp [retTy, ffiSafeVersion, toSyn, rAbi]⟩
      | _ => exact ret_opt_agree env sup abi _ sd (by simp) (by simp) (by simp) h h128'
    | prim p =>
      obtain ⟨c, hc, ha⟩ := cPrim_some p (by simpa [has128Ret, has128] using h128)
      exact ⟨.prim c, rustPrimAbi p, by simp [cRetTy, cTy, hc], by simp [cAbiSimple, ha], by simp [retTy, toSyn, rAbi]⟩
    | ordering =>
      obtain ⟨c, hc, ha⟩ := cPrim_some .i8 rfl
      exact ⟨.prim c, rustPrimAbi .i8, by simp [cRetTy, cTy, hc], by simp [cAbiSimple, ha], by simp [retTy, rAbi, rustPrimAbi]⟩
    | named n =>
      simp only [RetOk] at h
      cases h with
      | struct _ _ _ out fields hg hz =>
        have hf : fields.isEmpty = false := by rcases hz with hz | hz <;> simp_all
        exact ⟨.structTy n, [.named n], by simp [cRetTy, cTy, hg], by simp [cAbiSimple], by simp [retTy, toSyn, rAbi, hg, hf]⟩
      | enum _ _ _ hg =>
        exact ⟨.enumTy n, [.cenum n], by simp [cRetTy, cTy, hg], by simp [cAbiSimple], by simp [retTy, toSyn, rAbi, hg]⟩
    | ref lt m b =>
      simp only [RetOk] at h
      cases h with
      | refOpaque _ _ _ _ t ho =>
        obtain ⟨n, rfl, hn⟩ := isOpaque_named ho
        exact ⟨.opaquePtr (!m) n, [.ptr], by simp [cRetTy, cTy, hn], by simp [cAbiSimple], by simp [retTy, toSyn, rAbi, isPtrTo]⟩
    | box b =>
      simp only [RetOk] at h
      cases h with
      | boxOpaque _ _ t ho =>
        obtain ⟨n, rfl, hn⟩ := isOpaque_named ho
        exact ⟨.opaquePtr false n, [.ptr], by simp [cRetTy, cTy, hn], by simp [cAbiSimple], by simp [retTy, toSyn, rAbi, isPtrTo]⟩
    | strRef lt e sd =>
      obtain ⟨c8, h8⟩ := inst_string
      obtain ⟨c16, h16⟩ := inst_string16
      exact ⟨.strView (isU16 e), viewAbi, by simp [cRetTy, cTy], by cases hu : isU16 e <;> simp [cAbiSimple, h8, h16],
        by simp [retTy, rAbi]⟩
    | primSlice ltm p sd =>
      obtain ⟨d, c, hd, hc⟩ := derived_instance_some p (by simpa [has128Ret, has128] using h128)
      exact ⟨.primView d (sliceMut ltm), viewAbi, by simp [cRetTy, cTy, hd], by simp [cAbiSimple, hc], by simp [retTy, rAbi]⟩
    | write => simp only [RetOk] at h; cases h
    | strSlice _ _ => simp only [RetOk] at h; cases h
    | fn _ _ => simp only [RetOk] at h; cases h

/-! ### `self`, struct fields, callbacks, the write buffer -/

/-- `self` agrees: an opaque is passed as a pointer (`const` iff `&self`), a struct or enum by value. -/
theorem self_agree (env : Env) (owner : String) (s : ASelf) :
    (env.get owner = some .opaqueTy → s.byRef = true →
        cTy env (selfTyName owner s) = some (.opaquePtr (!s.mutable) owner)
        ∧ rAbi env (toSyn (selfTyName owner s)) = some [.ptr])
    ∧ (∀ fields, env.get owner = some (.struct false fields) → fields.isEmpty = false → s.byRef = false →
        cTy env (selfTyName owner s) = some (.structTy owner)
        ∧ rAbi env (toSyn (selfTyName owner s)) = some [.named owner])
    ∧ (env.get owner = some .enumTy → s.byRef = false →
        cTy env (selfTyName owner s) = some (.enumTy owner)
        ∧ rAbi env (toSyn (selfTyName owner s)) = some [.cenum owner]) := by
  refine ⟨?_, ?_, ?_⟩
  · intro hg hr
    simp [selfTyName, hr, cTy, isOpaqueName, hg, toSyn, rAbi, isPtrTo]
  · intro fields hg hne hr
    simp [selfTyName, hr, cTy, hg, toSyn, rAbi, hne]
  · intro hg hr
    simp [selfTyName, hr, cTy, hg, toSyn, rAbi]

/-- struct fields are written by the user and must be FFI-safe as written -/
def fieldOk (env : Env) (sup : Support) (out : Bool) (t : TyName) : Prop :=
  isFfiSafe t = true ∧ (if out then OutOk env sup true false t else InOk env sup true t)

/-- **Struct fields agree** (input structs): the Rust field type as the user wrote it (`to_syn`; the macro adds
    `#[repr(C)]`) and the C field type have the same wire meaning, field by field, hence the same layout. -/
theorem field_agree (env : Env) (sup : Support) (t : TyName)
    (hs : isFfiSafe t = true) (h : InOk env sup true t) (h128 : has128 t = false)
    (hf22 : dipOptOfStdSlice t = false) :
    ∃ c a, cTy env t = some c ∧ cAbi c = some a ∧ rAbi env (toSyn t) = some a := by
  cases h with
  | prim _ p =>
    obtain ⟨c, hc, ha⟩ := cPrim_some p (by simpa [has128] using h128)
    exact ⟨.prim c, rustPrimAbi p, by simp [cTy, hc], by simp [cAbiSimple, ha], by simp [toSyn, rAbi]⟩
  | struct _ n fields hg hne => exact ⟨.structTy n, [.named n], by simp [cTy, hg], by simp [cAbiSimple], by simp [toSyn, rAbi, hg, hne]⟩
  | enum _ n hg => exact ⟨.enumTy n, [.cenum n], by simp [cTy, hg], by simp [cAbiSimple], by simp [toSyn, rAbi, hg]⟩
  | refOpaque _ lt m t ho =>
    obtain ⟨n, rfl, hn⟩ := isOpaque_named ho
    exact ⟨.opaquePtr (!m) n, [.ptr], by simp [cTy, hn], by simp [cAbiSimple], by simp [toSyn, rAbi, isPtrTo]⟩
  | optRefOpaque _ lt m t ho =>
    obtain ⟨n, rfl, hn⟩ := isOpaque_named ho
    exact ⟨.opaquePtr (!m) n, [.ptr], by simp [cTy, hn], by simp [cAbiSimple], by simp [toSyn, rAbi, isPtrTo]⟩
  | optNamed _ n sd hno hstd _ hin =>
    have hsd : sd = .dip := by cases sd <;> simp_all
    subst hsd
    cases hin with
    | struct _ _ fields hg hne =>
      exact ⟨.optNamed n false, mkResult [[.named n]], by simp [cTy, hg], by simp [cAbiSimple], by simp [toSyn, rAbi, hg, hne]⟩
    | enum _ _ hg =>
      exact ⟨.optNamed n true, mkResult [[.cenum n]], by simp [cTy, hg], by simp [cAbiSimple], by simp [toSyn, rAbi, hg]⟩
  | optPrim _ p sd hstd _ =>
    have hsd : sd = .dip := by cases sd <;> simp_all
    subst hsd
    obtain ⟨d, hd, ha⟩ := derived_some p (by simpa [has128] using h128)
    exact ⟨.optPrim d, mkResult [rustPrimAbi p], by simp [cTy, hd], by simp [cAbiSimple, ha],
      by simp [toSyn, rAbi, rArm_ne (rustPrimAbi_ne_nil p)]⟩
  | optStrs _ e s sd _ =>
    have hsd : sd = .dip := by cases sd <;> simp_all [isFfiSafe]
    subst hsd
    obtain ⟨c8, h8⟩ := inst_strings
    obtain ⟨c16, h16⟩ := inst_strings16
    have hs' : s = .dip := by cases s <;> simp_all [dipOptOfStdSlice]
    subst hs'
    exact ⟨.optStrsView (isU16 e), mkResult [viewAbi], by simp [cTy],
      by cases hu : isU16 e <;> simp [cAbiSimple, h8, h16], by simp [toSyn, rAbi, rArm_ne viewAbi_ne_nil]⟩
  | optStr _ lt e s sd _ _ =>
    have hsd : sd = .dip := by cases sd <;> simp_all [isFfiSafe]
    subst hsd
    have hs' : s = .dip := by cases s <;> simp_all [dipOptOfStdSlice]
    subst hs'
    obtain ⟨c8, h8⟩ := inst_string
    obtain ⟨c16, h16⟩ := inst_string16
    exact ⟨.optStrView (isU16 e), mkResult [viewAbi], by simp [cTy],
      by cases hu : isU16 e <;> simp [cAbiSimple, h8, h16], by simp [toSyn, rAbi, rArm_ne viewAbi_ne_nil]⟩
  | optSlice _ ltm p s sd _ _ =>
    have hsd : sd = .dip := by cases sd <;> simp_all [isFfiSafe]
    subst hsd
    have hs' : s = .dip := by cases s <;> simp_all [dipOptOfStdSlice]
    subst hs'
    obtain ⟨d, c, hd, hc⟩ := derived_instance_some p (by simpa [has128] using h128)
    exact ⟨.optPrimView d (sliceMut ltm), mkResult [viewAbi], by simp [cTy, hd], by simp [cAbiSimple, hc],
      by simp [toSyn, rAbi, rArm_ne viewAbi_ne_nil]⟩
  | str _ lt e sd _ =>
    have hsd : sd = .dip := by cases sd <;> simp_all [isFfiSafe]
    subst hsd
    obtain ⟨c8, h8⟩ := inst_string
    obtain ⟨c16, h16⟩ := inst_string16
    exact ⟨.strView (isU16 e), viewAbi, by simp [cTy], by cases hu : isU16 e <;> simp [cAbiSimple, h8, h16], by simp [toSyn, rAbi]⟩
  | strs _ e sd =>
    have hsd : sd = .dip := by cases sd <;> simp_all [isFfiSafe]
    subst hsd
    obtain ⟨c8, h8⟩ := inst_strings
    obtain ⟨c16, h16⟩ := inst_strings16
    exact ⟨.strsView (isU16 e), viewAbi, by simp [cTy], by cases hu : isU16 e <;> simp [cAbiSimple, h8, h16], by simp [toSyn, rAbi]⟩
  | slice _ ltm p sd _ =>
    have hsd : sd = .dip := by cases sd <;> simp_all [isFfiSafe]
    subst hsd
    obtain ⟨d, c, hd, hc⟩ := derived_instance_some p (by simpa [has128] using h128)
    exact ⟨.primView d (sliceMut ltm), viewAbi, by simp [cTy, hd], by simp [cAbiSimple, hc], by simp [toSyn, rAbi]⟩


/-! ### callbacks: the signature of `run_callback` -/

theorem optMapM_map {α β γ : Type} (f : α → Option β) (g : β → γ) (h : α → γ) (ps : List α)
    (H : ∀ p ∈ ps, ∃ c, f p = some c ∧ g c = h p) :
    ∃ cs, optMapM f ps = some cs ∧ cs.map g = ps.map h := by
  induction ps with
  | nil => exact ⟨[], rfl, rfl⟩
  | cons p ps ih =>
    obtain ⟨c, hc, hg⟩ := H p (by simp)
    obtain ⟨cs, hcs, hm⟩ := ih (fun q hq => H q (by simp [hq]))
    exact ⟨c :: cs, by simp [optMapM, hc, hcs], by simp [hg, hm]⟩


theorem outOk_mono (env : Env) (sup : Support) (is : Bool) (t : TyName) (h : OutOk env sup is false t) :
    OutOk env sup is true t := by
  cases h with
  | prim _ _ p => exact .prim _ _ p
  | ordering _ => exact .ordering _
  | struct _ _ n out fields hg hz => exact .struct _ _ n out fields hg (Or.inl rfl)
  | enum _ _ n hg => exact .enum _ _ n hg
  | refOpaque _ _ lt m t ho => exact .refOpaque _ _ lt m t ho
  | boxOpaque _ _ t ho => exact .boxOpaque _ _ t ho
  | optRefOpaque _ _ lt m t ho => exact .optRefOpaque _ _ lt m t ho
  | optBoxOpaque _ _ t ho => exact .optBoxOpaque _ _ t ho
  | optNamed _ _ n sd h1 h2 h3 h4 => exact .optNamed _ _ n sd h1 h2 h3 h4
  | optPrim _ _ p sd h1 h2 => exact .optPrim _ _ p sd h1 h2
  | borrowedStr _ _ lt e sd => exact .borrowedStr _ _ lt e sd
  | borrowedSlice _ _ ltm p sd => exact .borrowedSlice _ _ ltm p sd

/-- the macro's parameter type and the FFI-safe version written with `to_syn` mean the same on the wire -/
theorem paramTy_abi (env : Env) (sup : Support) (t : TyName) (h : OutOk env sup false false t) :
    rAbi env (paramTy t) = rAbi env (toSyn (ffiSafeVersion t)) := by
  cases h with
  | ordering _ => simp [paramTy, ffiSafeVersion, toSyn, rAbi, rustPrimAbi]
  | optNamed _ _ n sd _ _ _ _ => cases sd <;> simp [paramTy, isFfiSafe, ffiSafeVersion, toSyn]
  | optPrim _ _ p sd _ _ => cases sd <;> simp [paramTy, isFfiSafe, ffiSafeVersion, toSyn]
  | optRefOpaque _ _ lt m t ho => simp [paramTy, isFfiSafe, ffiSafeVersion, toSyn]
  | optBoxOpaque _ _ t ho => simp [paramTy, isFfiSafe, ffiSafeVersion, toSyn]
  | borrowedStr _ _ lt e sd => cases sd <;> simp [paramTy, ffiSafeVersion, toSyn]
  | borrowedSlice _ _ ltm p sd => cases sd <;> simp [paramTy, ffiSafeVersion, toSyn]
  | _ => simp [paramTy, ffiSafeVersion, toSyn]

/-- **A callback argument agrees.** For every type the gate accepts as a callback parameter (lowered with the
    output rules), the type the macro puts into the transmuted `run_callback` signature and the type the C
    backend declares in the wrapper struct have the same, defined, wire description. -/
theorem callback_arg_agree (env : Env) (sup : Support) (t : TyName)
    (h : OutOk env sup false false t) (h128 : has128 t = false) :
    ∃ c a, cTy env t = some c ∧ cAbiSimple c = some a ∧ rAbi env (paramTy t) = some a ∧ a ≠ [] := by
  obtain ⟨oc, a, h1, h2, h3⟩ := arm_agree env sup t (Or.inr (outOk_mono env sup false t h)) h128
  have hz : isZst env t = false := by
    cases h with
    | struct _ _ n out fields hg hz =>
      simp only [isZst, hg]
      rcases hz with hz | hz <;> simp_all
    | enum _ _ n hg => simp [isZst, hg]
    | _ => simp [isZst]
  have hu : isUnit t = false := by cases h <;> rfl
  simp only [cArm, hz, hu, Bool.or_self, Bool.false_eq_true, ↓reduceIte] at h1
  cases hc : cTy env t with
  | none => simp [hc] at h1
  | some c =>
    simp only [hc, Option.map_some, Option.some.injEq] at h1
    subst h1
    simp only [cArmAbi] at h3
    cases hcs : cAbiSimple c with
    | none => simp [hcs] at h3
    | some ca =>
      simp only [hcs, Option.map_some, Option.some.injEq] at h3
      have hne : a ≠ [] := by
        intro he; subst he; simp at h3
      have : ca = a := by
        rw [rArm_ne hne] at h3
        exact (List.cons.inj h3).1
      subst this
      exact ⟨c, ca, rfl, hcs, by rw [paramTy_abi env sup t h, h2], hne⟩

/-- **The callback signature agrees** (arguments of any accepted type; results: unit, primitives, enums and structs
    by value — what `to_syn` leaves FFI-safe). The C wrapper struct's `run_callback` has as many arguments as the
    signature the macro transmutes to, after the leading `void*`, each with the same wire description, and the same
    result. -/
theorem callback_sig_agree (env : Env) (sup : Support) (ps : List TyName) (r : TyName)
    (hps : ∀ p ∈ ps, OutOk env sup false false p ∧ has128 p = false)
    (hr : r = .unit ∨ (∃ p, r = .prim p ∧ is128 p = false) ∨ (∃ n, r = .named n ∧ InOk env sup false (.named n))) :
    ∃ cs cr, cbCSig env ps r = some (cs, cr)
      ∧ cs.map cAbiSimple = (cbRustSig ps r).1.map (rAbi env)
      ∧ cs.length = ps.length
      ∧ cAbiSimple cr = rAbi env (cbRustSig ps r).2 ∧ (cAbiSimple cr).isSome = true := by
  obtain ⟨cs, hcs, hmap⟩ := optMapM_map (cTy env) cAbiSimple (fun p => rAbi env (paramTy p)) ps
    (fun p hp => by
      obtain ⟨c, a, h1, h2, h3, _⟩ := callback_arg_agree env sup p (hps p hp).1 (hps p hp).2
      exact ⟨c, h1, by rw [h2, h3]⟩)
  have hlen : cs.length = ps.length := by
    have := congrArg List.length hmap
    simpa using this
  rcases hr with rfl | ⟨p, rfl, hp⟩ | ⟨n, rfl, hn⟩
  · exact ⟨cs, .void, by simp [cbCSig, hcs, isUnit], by rw [hmap]; simp [cbRustSig, List.map_map, Function.comp_def], hlen,
      by simp [cbRustSig, toSyn, rAbi, cAbiSimple], by simp [cAbiSimple]⟩
  · obtain ⟨c, hc, ha⟩ := cPrim_some p hp
    exact ⟨cs, .prim c, by simp [cbCSig, hcs, isUnit, cTy, hc], by rw [hmap]; simp [cbRustSig, List.map_map, Function.comp_def], hlen,
      by simp [cbRustSig, toSyn, rAbi, cAbiSimple, ha], by simp [cAbiSimple, ha]⟩
  · cases hn with
    | struct _ _ fields hg hne =>
      exact ⟨cs, .structTy n, by simp [cbCSig, hcs, isUnit, cTy, hg], by rw [hmap]; simp [cbRustSig, List.map_map, Function.comp_def], hlen,
        by simp [cbRustSig, toSyn, rAbi, cAbiSimple, hg, hne], by simp [cAbiSimple]⟩
    | enum _ _ hg =>
      exact ⟨cs, .enumTy n, by simp [cbCSig, hcs, isUnit, cTy, hg], by rw [hmap]; simp [cbRustSig, List.map_map, Function.comp_def], hlen,
        by simp [cbRustSig, toSyn, rAbi, cAbiSimple, hg], by simp [cAbiSimple]⟩

/-! ### whole methods -/

/-- what the gate demands of one parameter of a method (`lower_method`): the trailing write buffer,
    a callback, or an accepted input type -/
def ParamOk (env : Env) (sup : Support) (t : TyName) : Prop :=
  (∃ ps r, t = .fn ps r) ∨
  (InOk env sup false t ∧ has128 t = false ∧ dipOptOfStdSlice t = false ∧ (∀ ps r, t ≠ .fn ps r))

def SelfAgreeOk (env : Env) (owner : String) : Option ASelf → Prop
  | none => True
  | some s =>
    (env.get owner = some .opaqueTy ∧ s.byRef = true)
    ∨ (∃ fields, env.get owner = some (.struct false fields) ∧ fields.isEmpty = false ∧ s.byRef = false)
    ∨ (env.get owner = some .enumTy ∧ s.byRef = false)

/-- one parameter position: the write buffer is a pointer on both sides, a callback is the same
    three-word struct on both sides, anything else is `param_agree_partial` -/
theorem param_pos_agree (env : Env) (sup : Support) (abi : String) (p : String × TyName)
    (h : p.2 = .write ∨ ParamOk env sup p.2) :
    ∃ c, cParam1 env abi p = some c ∧ (cAbi c.2, (cAbi c.2).isSome) = (rAbi env (macroParam1 p).2, true) := by
  obtain ⟨n, t⟩ := p
  rcases h with h | h | ⟨hin, h128, hf22, hfn⟩
  · simp only at h; subst h
    exact ⟨("write", .writePtr), rfl, by simp [macroParam1, rAbi, isPtrTo, cAbiSimple]⟩
  · obtain ⟨ps, r, h⟩ := h
    simp only at h; subst h
    exact ⟨(n ++ "_cb_wrap", .callback abi n), rfl, by simp [macroParam1, paramTy, toSyn, rAbi, cAbiSimple]⟩
  · obtain ⟨c, hc, ha, hs⟩ := param_agree_partial env sup t hin h128 hf22 hfn
    have hw : t ≠ .write := by intro hw; subst hw; cases hin
    refine ⟨(n, c), ?_, ?_⟩
    · cases t <;> first | (exact absurd rfl hw) | (exact absurd rfl (hfn _ _)) | simp_all [cParam1]
    · have hm : (macroParam1 (n, t)).2 = paramTy t := by
        cases t <;> first | (exact absurd rfl hw) | rfl
      simp [hm, ha, hs]

/-- **Methods agree.** For a method the gate accepts: the C prototype exists; it has as many parameters as
    the `extern "C" fn` the macro generates, in the same order (`self`/`this` first, the write buffer where the
    method lists it); each position has the same, defined, wire meaning; and so has the return value.  The
    symbol is the same string by construction (`abiName`, also C06). -/
theorem method_agree (env : Env) (sup : Support) (pfx owner : String) (m : AMethod)
    (hself : SelfAgreeOk env owner m.self)
    (hparams : ∀ p ∈ m.params, p.2 = .write ∨ ParamOk env sup p.2)
    (hret : RetOk env sup m.ret) (h128 : has128Ret m.ret = false) :
    ∃ cps cr a, cParams env pfx owner m = some cps ∧ cRetTy env (abiName pfx owner m.name) m.ret = some cr
      ∧ cps.length = (macroParams owner m).length
      ∧ cps.map (fun c => (cAbi c.2, (cAbi c.2).isSome)) = (macroParams owner m).map (fun p => (rAbi env p.2, true))
      ∧ cAbi cr = some a ∧ rAbi env (retTy m.ret) = some a := by
  obtain ⟨cr, a, hcr, hca, hra⟩ := ret_agree env sup (abiName pfx owner m.name) m.ret hret h128
  obtain ⟨cs, hcs, hmap⟩ := optMapM_map (cParam1 env (abiName pfx owner m.name))
    (fun c => (cAbi c.2, (cAbi c.2).isSome)) (fun p => (rAbi env (macroParam1 p).2, true)) m.params
    (fun p hp => param_pos_agree env sup _ p (hparams p hp))
  have hself' : ∃ sc, cSelf env owner m = some sc
      ∧ sc.map (fun c => (cAbi c.2, (cAbi c.2).isSome)) = (macroSelf owner m).map (fun p => (rAbi env p.2, true)) := by
    unfold cSelf macroSelf
    cases hs : m.self with
    | none => exact ⟨[], rfl, rfl⟩
    | some s =>
      simp only [SelfAgreeOk, hs] at hself
      have sa := self_agree env owner s
      rcases hself with ⟨hg, hr⟩ | ⟨fields, hg, hne, hr⟩ | ⟨hg, hr⟩
      · obtain ⟨h1, h2⟩ := sa.1 hg hr
        exact ⟨[("self", .opaquePtr (!s.mutable) owner)], by simp [h1], by simp [h2, cAbiSimple]⟩
      · obtain ⟨h1, h2⟩ := sa.2.1 fields hg hne hr
        exact ⟨[("self", .structTy owner)], by simp [h1], by simp [h2, cAbiSimple]⟩
      · obtain ⟨h1, h2⟩ := sa.2.2 hg hr
        exact ⟨[("self", .enumTy owner)], by simp [h1], by simp [h2, cAbiSimple]⟩
  obtain ⟨sc, hsc, hsm⟩ := hself'
  refine ⟨sc ++ cs, cr, a, by simp [cParams, hsc, hcs], hcr, ?_, ?_, hca, hra⟩
  · have h1 := congrArg List.length hsm
    have h2 := congrArg List.length hmap
    simp only [List.length_map] at h1 h2
    simp [macroParams, h1, h2]
  · simp [macroParams, hsm, hmap, List.map_map]

/-! ### statements in terms of the gate's own functions -/

theorem param_agree_gate (env : Env) (sup : Support) (t : TyName)
    (h : inErrs env sup false t = []) (h128 : has128 t = false) (hf22 : dipOptOfStdSlice t = false)
    (hfn : ∀ ps r, t ≠ .fn ps r) :
    ∃ c, cTy env t = some c ∧ rAbi env (paramTy t) = cAbi c ∧ (cAbi c).isSome = true :=
  param_agree_partial env sup t ((in_gate_iff env sup false t).mp h) h128 hf22 hfn

theorem ret_agree_gate (env : Env) (sup : Support) (abi : String) (r : Option TyName)
    (h : retErrs env sup r = []) (h128 : has128Ret r = false) :
    ∃ c a, cRetTy env abi r = some c ∧ cAbi c = some a ∧ rAbi env (retTy r) = some a :=
  ret_agree env sup abi r ((ret_gate_iff env sup r).mp h) h128

/-! ### the defect this model exposed (F24), as a statement about `to_syn` -/

/-- Writing a returned `Result`'s payload with `to_syn` (what the macro did before the repair) leaves a
    std `Option<u8>` inside the `#[repr(C)]` result: a type without defined layout. The C side says `OptionU8`. -/
example : rAbi [] (.dipResult (toSyn (.opt (.prim .u8) .std)) .unit) = none := by decide
example : rAbi [] (retTy (some (.res (.opt (.prim .u8) .std) .unit .std))) = some (mkResult [mkResult [[.int 8 false]]]) := by decide

/-! ### non-vacuity: concrete accepted types meet the hypotheses -/

def envEx : Env := [("Op", .opaqueTy), ("St", .struct false [("a", .prim .u8)]), ("En", .enumTy), ("Zs", .struct false [])]
def supEx : Support := ⟨true, true, true, false⟩

example : inErrs envEx supEx false (.opt (.named "St") .std) = [] ∧ has128 (.opt (.named "St") .std) = false := by decide
example : (cTy envEx (.opt (.named "St") .std)).bind cAbi = some (mkResult [[.named "St"]])
    ∧ rAbi envEx (paramTy (.opt (.named "St") .std)) = some (mkResult [[.named "St"]]) := by decide
example : retErrs envEx supEx (some (.res (.opt (.prim .i16) .dip) (.named "Zs") .std)) = [] := by decide
example : (cRetTy envEx "f" (some (.res (.opt (.prim .i16) .dip) (.named "Zs") .std))).bind cAbi
    = some (mkResult [mkResult [[.int 16 true]]]) := by decide
example : rAbi envEx (retTy (some (.res (.opt (.prim .i16) .dip) (.named "Zs") .std)))
    = some (mkResult [mkResult [[.int 16 true]]]) := by decide
example : methodAgrees envEx "p_" "Op"
    ⟨"m", some ⟨true, .named "a", false⟩, [("x", .strRef (some .anon) .utf8 .std), ("cb", .fn [.prim .u8] .unit), ("w", .write)],
      some (.res .unit (.named "En") .std)⟩ = true := by decide

/-! ### bytes: what one side stores the other side loads (`Wire.lean`) -/

open DiplomatModel.Wire in
/-- **Values cross bit for bit.** For every wire type — scalars, structs nested to any depth, `Option` / `Result`
    with payload or unit arms — and every value of that type: storing it at any address by the C layout rules and
    loading it from there by the same rules (the two sides agree on the description: theorems above) gives back
    exactly the value stored, whatever the memory held before. In particular the arm of a result that is loaded is
    the arm that was stored, and every scalar comes back with the same bytes. -/
theorem value_roundtrip (t : WTy) (v : WVal) (base : Nat) (m : Memory.Mem) (hwf : t.WF) (hv : WellTyped t v) :
    decode t base (encode t v base m) = v :=
  decode_encode t v base m hwf hv

open DiplomatModel.Wire in
/-- … and storing a value touches nothing outside its own `size` bytes (a by-value argument cannot clobber its
    neighbours) -/
theorem value_store_is_local (t : WTy) (v : WVal) (base : Nat) (m : Memory.Mem) (a : Nat) (hwf : t.WF)
    (hv : WellTyped t v) (ha : a < base ∨ base + size t ≤ a) : encode t v base m a = m a :=
  encode_outside t v base m a hwf hv ha

open DiplomatModel.Wire in
/-- **Which arm was taken survives the crossing.** -/
theorem result_arm_roundtrip (ok err : WTy) (v : WVal) (base : Nat) (m : Memory.Mem) (hwf : (WTy.result ok err).WF) :
    (WellTyped ok v → decode (.result ok err) base (encode (.result ok err) (.ok v) base m) = .ok v)
    ∧ (WellTyped err v → decode (.result ok err) base (encode (.result ok err) (.err v) base m) = .err v) :=
  ⟨fun h => decode_encode _ _ base m hwf (by simpa [WellTyped] using h),
   fun h => decode_encode _ _ base m hwf (by simpa [WellTyped] using h)⟩

open DiplomatModel.Wire in
/-- the round trip applies to the wire type of every parameter, field and return type of a bridge (layout tied to
    gcc's `sizeof` / `offsetof` numbers by the harness, `wire-layout`) -/
theorem bridge_type_roundtrip (env : Env) (fuel : Nat) (t : TyName) (w : WTy) (v : WVal) (base : Nat) (m : Memory.Mem)
    (h : wireOf env fuel t = some w) (hv : WellTyped w v) : decode w base (encode w v base m) = v :=
  decode_encode w v base m (wireOf_wf env fuel t w h) hv

open DiplomatModel.Wire in
/-- non-vacuity: `struct { a: u8, r: Result<u32, ()>, p: u64 }` has size 24, `r` at 4 with its flag at 8, `p` at 16,
    and a value of it exists -/
example : wireOf [("St", .struct false [("a", .prim .u8), ("o", .opt (.prim .u32) .dip), ("p", .prim .u64)])] 3 (.named "St")
    = some (.struct [.scalar 1, .result (.scalar 4) .unit, .scalar 8]) := by rfl
open DiplomatModel.Wire in
example : size (.struct [.scalar 1, .result (.scalar 4) .unit, .scalar 8]) = 24
    ∧ offsets [.scalar 1, .result (.scalar 4) .unit, .scalar 8] = [0, 4, 16]
    ∧ flagOffset (.scalar 4) .unit = 4 := by decide
open DiplomatModel.Wire in
example : WellTyped (.struct [.scalar 1, .result (.scalar 4) .unit, .scalar 8])
    (.struct [.scalar [7], .ok (.scalar [1, 2, 3, 4]), .scalar [9, 9, 9, 9, 9, 9, 9, 9]]) := by
  simp [WellTyped, WellTypedList]

end DiplomatModel.Props.C01
