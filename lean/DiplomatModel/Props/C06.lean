/-
  C06 — Every backend calls exactly the symbols the Rust library exports.
-/
import DiplomatModel.Lemmas.Rename
namespace DiplomatModel.Props.C06
open DiplomatModel.Rename DiplomatModel.Cfg

/-- **Pattern semantics.** Applying a pattern to a name inserts the name at the *first* `{0}`
    (everything after it, including further `{0}`s, is kept); a pattern without `{0}` is a pure rename. -/
theorem rename_apply_spec (s n : Str) :
    applyAttr (some (parse s)) n =
      match splitFirst s with
      | some (a, b) => a ++ n ++ b
      | none => s := by
  rw [← findSub_splitFirst]
  unfold applyAttr parse
  cases hf : findSub placeholder s with
  | none => simp [Pattern.apply]
  | some i =>
    have hb := findSub_bound s i hf
    simp only [Pattern.apply, Option.map_some]
    have h1 : (List.take i s ++ List.drop (i + 3) s).take i = List.take i s := by
      rw [List.take_append_of_le_length (by simp; omega)]
      simp [List.take_take]
    have h2 : (List.take i s ++ List.drop (i + 3) s).drop i = List.drop (i + 3) s := by
      rw [List.drop_append_of_le_length (by simp; omega)]
      have : (List.take i s).length = i := by simp; omega
      rw [List.drop_eq_nil_of_le (by omega)]; simp
    rw [h1, h2]

/-- `splitFirst` really splits at an occurrence of `{0}` -/
theorem split_is_occurrence (s a b : Str) (h : splitFirst s = some (a, b)) : s = a ++ placeholder ++ b :=
  splitFirst_sound s a b h

/-- **Inheritance.** The pattern in force is the innermost one present: method, else impl, else module for
    methods; type, else module for destructors. Patterns do not compose. -/
theorem rename_inherit_spec (m i me : Option Pattern) :
    extend (extend m i) me = me.or (i.or m) := by
  cases m <;> cases i <;> cases me <;> rfl

theorem method_abi_name (m : Module6) (t : Type6) (i : Impl6) (me : Method6) :
    methodAbi m t i me =
      String.ofList (applyAttr ((pat me.abi).or ((pat i.abi).or (pat m.abi))) (t.name ++ "_" ++ me.name).toList) := by
  unfold methodAbi; simp only [rename_inherit_spec]

theorem dtor_abi_name (m : Module6) (t : Type6) :
    dtorAbi m t = String.ofList (applyAttr ((pat t.abi).or (pat m.abi)) (t.name ++ "_destroy").toList) := by
  unfold dtorAbi extend; rfl

/-- **Naming scheme** without any `abi_rename`: `Type_method`, `Type_destroy`. -/
theorem abi_name_scheme (m : Module6) (t : Type6) (i : Impl6) (me : Method6)
    (h1 : m.abi = none) (h2 : i.abi = none) (h3 : me.abi = none) (h4 : t.abi = none) :
    methodAbi m t i me = String.ofList (t.name ++ "_" ++ me.name).toList
    ∧ dtorAbi m t = String.ofList (t.name ++ "_destroy").toList := by
  simp [methodAbi, dtorAbi, pat, extend, applyAttr, h1, h2, h3, h4]

/-- **Used ⊆ exported.** Whatever a backend's generated code refers to is a symbol the proc macro exports
    (the macro exports every method and destructor regardless of backend conditions). -/
theorem used_subset_exported (vd : Validator) (m : Module6) (u : List String) (h : usedBy vd m = some u) :
    ∀ s ∈ u, s ∈ exported m := by
  unfold usedBy at h
  cases hl : lower vd (toCfg m) with
  | none => simp [hl] at h
  | some lts =>
    simp only [hl, Option.some.injEq] at h
    subst h
    intro s hs
    rw [List.mem_flatMap] at hs
    obtain ⟨t, ht, hst⟩ := hs
    unfold exported
    rw [List.mem_flatMap]
    refine ⟨t, ht, ?_⟩
    cases hf : lts.find? (fun lt => lt.name == t.name) with
    | none => simp [hf] at hst
    | some lt =>
      simp only [hf] at hst
      by_cases hd : lt.disabled = true
      · simp [hd] at hst
      · simp only [hd, Bool.false_eq_true, if_false, List.mem_append] at hst ⊢
        rcases hst with h1 | h2
        · exact Or.inl h1
        · right
          rw [List.mem_flatMap] at h2 ⊢
          obtain ⟨i, hi, hm⟩ := h2
          refine ⟨i, hi, ?_⟩
          rw [List.mem_map] at hm ⊢
          obtain ⟨me, hme, rfl⟩ := hm
          exact ⟨me, (List.mem_filter.mp hme).1, rfl⟩

/-- A symbol that is exported but not used by a backend belongs to a type or method that backend has
    disabled (contrapositive form: an enabled method's symbol is used). -/
theorem enabled_method_used (vd : Validator) (m : Module6) (lts : List LType) (t : Type6) (lt : LType)
    (i : Impl6) (me : Method6)
    (hl : lower vd (toCfg m) = some lts) (ht : t ∈ m.types) (hf : lts.find? (fun x => x.name == t.name) = some lt)
    (hen : lt.disabled = false) (hi : i ∈ t.impls) (hme : me ∈ i.methods)
    (hkept : lt.methods.any (fun lm => lm.name == me.name) = true) :
    ∃ u, usedBy vd m = some u ∧ methodAbi m t i me ∈ u := by
  unfold usedBy
  simp only [hl]
  refine ⟨_, rfl, ?_⟩
  rw [List.mem_flatMap]
  refine ⟨t, ht, ?_⟩
  simp only [hf, hen, Bool.false_eq_true, if_false, List.mem_append]
  right
  rw [List.mem_flatMap]
  refine ⟨i, hi, ?_⟩
  rw [List.mem_map]
  exact ⟨me, List.mem_filter.mpr ⟨hme, hkept⟩, rfl⟩

/-! non-vacuity -/
example : String.ofList (applyAttr (some (parse "icu4x_{0}_mv1".toList)) "Foo_bar".toList) = "icu4x_Foo_bar_mv1" := by decide
example : String.ofList (applyAttr (some (parse "fixed".toList)) "Foo_bar".toList) = "fixed" := by decide
example : splitFirst "a{0}b{0}".toList = some ("a".toList, "b{0}".toList) := by decide

end DiplomatModel.Props.C06
