/-
  C16 — Runtime slice and string views round-trip and UTF-8 checking is exact.
-/
import DiplomatModel.Slices
import DiplomatModel.Lemmas.Utf8
import DiplomatModel.Lemmas.JsStr
namespace DiplomatModel.Props.C16
open DiplomatModel.Slices DiplomatModel.Utf8

/-- slice → view → slice gives back the same pointer and length (a Rust reference is never null),
    hence the same contents in any memory, for every element size/alignment. -/
theorem view_roundtrip (align : Nat) (s : Slice) (h : s.ptr ≠ 0) :
    intoSlice align (fromSlice s) = s := by
  simp [intoSlice, fromSlice, h]

theorem view_roundtrip_contents (align size : Nat) (m : Nat → Nat) (s : Slice) (h : s.ptr ≠ 0) :
    contents m size (intoSlice align (fromSlice s)) = contents m size s := by
  rw [view_roundtrip align s h]

/-- A NULL view is accepted as the empty slice: non-null pointer, length 0, no elements
    (even if the foreign side passed a non-zero length together with NULL). -/
theorem null_is_empty (align size len : Nat) (m : Nat → Nat) (ha : 0 < align) :
    (intoSlice align ⟨0, len⟩).ptr ≠ 0 ∧ (intoSlice align ⟨0, len⟩).len = 0
      ∧ contents m size (intoSlice align ⟨0, len⟩) = [] := by
  simp [intoSlice, dangling, contents]; omega

/-- non-NULL views are taken as they are -/
theorem nonnull_view_preserved (align : Nat) (v : View) (h : v.ptr ≠ 0) :
    intoSlice align v = ⟨v.ptr, v.len⟩ := by
  simp [intoSlice, h]

/-- `Box<[T]>` → owned view → `Box<[T]>` is the identity (including the zero-length box, whose
    pointer is dangling but non-null), and the conversion itself frees nothing. -/
theorem owned_roundtrip (align : Nat) (b : Slice) (h : b.ptr ≠ 0) :
    ownedInto align (ownedFrom b) = b := by
  simp [ownedInto, ownedFrom, h]

/-- Dropping an owned view made from a box frees exactly that box, once. -/
theorem owned_drop_once (b : Slice) (h : b.ptr ≠ 0) : ownedDrop (ownedFrom b) = [b] := by
  simp [ownedDrop, ownedFrom, h]

/-- Dropping a NULL owned view frees nothing; converting it yields an empty, non-null box when len = 0. -/
theorem owned_null (align : Nat) (ha : 0 < align) :
    ownedDrop ⟨0, 0⟩ = [] ∧ (ownedInto align ⟨0, 0⟩).ptr ≠ 0 ∧ (ownedInto align ⟨0, 0⟩).len = 0 := by
  simp [ownedDrop, ownedInto, dangling]; omega

/-- The exported UTF-8 check answers true exactly for valid UTF-8: the automaton accepts a byte string
    iff it is the concatenation of the UTF-8 encodings of Unicode scalar values. Unbounded length. -/
theorem validUtf8_iff (bs : List Nat) : validUtf8 bs = true ↔ IsUtf8 bs :=
  ⟨sound bs.length bs (Nat.le_refl _), complete bs⟩

/-- every accepted string consists of bytes (< 256) -/
theorem validUtf8_bytes (bs : List Nat) (h : validUtf8 bs = true) : ∀ b ∈ bs, b < 256 := by
  obtain ⟨cs, hs, rfl⟩ := (validUtf8_iff bs).mp h
  intro b hb
  rw [List.mem_flatMap] at hb
  obtain ⟨c, hc, hbc⟩ := hb
  have := hs c hc
  unfold isScalar at this
  unfold enc at hbc
  (repeat' split at hbc) <;> simp at hbc <;> omega

/-! non-vacuity -/
example : validUtf8 [0xE2, 0x82, 0xAC, 0x41] = true := by decide            -- "€A"
example : validUtf8 [0xED, 0xA0, 0x80] = false := by decide                  -- surrogate
example : validUtf8 [0xC0, 0x80] = false := by decide                        -- overlong
example : validUtf8 [0xF4, 0x90, 0x80, 0x80] = false := by decide            -- > U+10FFFF
example : intoSlice 4 (fromSlice ⟨4096, 7⟩) = ⟨4096, 7⟩ := by decide
example : ownedDrop (ownedFrom ⟨4, 0⟩) = [⟨4, 0⟩] := by decide              -- zero-length box: dangling, non-null

open DiplomatModel.JsStr in
/-- **The UTF-8 view of a JS string covers exactly the bytes written**: the length `DiplomatBuf.str8` computes by
    walking code points is the number of bytes `TextEncoder` produces — for every string, well-formed or not
    (an unpaired surrogate is three bytes either way). -/
theorem js_str8_length_exact (us : List Nat) : str8Len us = (encode us).length := by
  unfold str8Len encode scalars
  induction codePoints us with
  | nil => rfl
  | cons c cs ih =>
    simp only [List.map_cons, List.sum_cons, List.flatMap_cons, List.length_append, enc_length, cpLen_scalarOf, ih]

open DiplomatModel.JsStr in
/-- **… and Rust accepts it as a `str`**: the bytes written for any JS string (16-bit units) are well-formed UTF-8
    by the very check `diplomat_is_str` makes (`validUtf8`, proved equal to the Unicode definition above). -/
theorem js_str8_is_str (us : List Nat) (h : ∀ u ∈ us, u < 0x10000) : validUtf8 (encode us) = true := by
  rw [validUtf8_iff]
  refine ⟨scalars us, ?_, rfl⟩
  intro c hc
  unfold scalars at hc
  obtain ⟨d, hd, rfl⟩ := List.mem_map.mp hc
  exact scalarOf_isScalar d (codePoints_lt us h d hd)

open DiplomatModel.JsStr in
/-- a string cut through a surrogate pair ("a" + lead of U+1F600): four bytes, ending in U+FFFD -/
example : str8Len [0x61, 0xD83D] = 4 ∧ encode [0x61, 0xD83D] = [0x61, 0xEF, 0xBF, 0xBD]
    ∧ encode [0xD83D, 0xDE00] = [0xF0, 0x9F, 0x98, 0x80] := by decide

end DiplomatModel.Props.C16
