/-
  C16 — Runtime slice and string views round-trip and UTF-8 checking is exact.
-/
import DiplomatModel.Slices
import DiplomatModel.Lemmas.Utf8
import DiplomatModel.Lemmas.JsStr
namespace DiplomatModel.Props.C16
open DiplomatModel.Slices DiplomatModel.Utf8

/-- slice → view → slice gives back the same pointer and length (a Rust reference is never null),
    hence the same contents in any memory, for every element size/alignment. -/
theorem view_roundtrip (align : Nat) (s : Slice) (h : s.ptr ≠ 0) :
    intoSlice align (fromSlice s) = s := by
  simp [intoSlice, fromSlice, h]

theorem view_roundtrip_contents (align size : Nat) (m : Nat → Nat) (s : Slice) (h : s.ptr ≠ 0) :
    contents m size (intoSlice align (fromSlice s)) = contents m size s := by
  rw [view_roundtrip align s h]

/-- A NULL view is accepted as the empty slice: non-null pointer, length 0, no elements
    (even if the foreign side passed a non-zero length together with NULL). -/
theorem null_is_empty (align size len : Nat) (m : Nat → Nat) (ha : 0 < align) :
    (intoSlice align ⟨0, len⟩).ptr ≠ 0 ∧ (intoSlice align ⟨0, len⟩).len = 0
      ∧ contents m size (intoSlice align ⟨0, len⟩) = [] := by
  simp [intoSlice, dangling, contents]; omega

/-- non-NULL views are taken as they are -/
theorem nonnull_view_preserved (align : Nat) (v : View) (h : v.ptr ≠ 0) :
    intoSlice align v = ⟨v.ptr, v.len⟩ := by
  simp [intoSlice, h]

/-- `Box<[T]>` → owned view → `Box<[T]>` is the identity (including the zero-length box, whose
    pointer is dangling but non-null), and the conversion itself frees nothing. -/
theorem owned_roundtrip (align : Nat) (b : Slice) (h : b.ptr ≠ 0) :
    ownedInto align (ownedFrom b) = b := by
  simp [ownedInto, ownedFrom, h]

/-- Dropping an owned view made from a box frees exactly that box, once. -/
theorem owned_drop_once (b : Slice) (h : b.ptr ≠ 0) : ownedDrop (ownedFrom b) = [b] := by
  simp [ownedDrop, ownedFrom, h]

/-- Dropping a NULL owned view frees nothing; converting it yields an empty, non-null box when len = 0. -/
theorem owned_null (align : Nat) (ha : 0 < align) :
    ownedDrop ⟨0, 0⟩ = [] ∧ (ownedInto align ⟨0, 0⟩).ptr ≠ 0 ∧ (ownedInto align ⟨0, 0⟩).len = 0 := by
  simp [ownedDrop, ownedInto, dangling]; omega

/-- The exported UTF-8 check answers true exactly for valid UTF-8: the automaton accepts a byte string
    iff it is the concatenation of the UTF-8 encodings of Unicode scalar values. Unbounded length. -/
theorem validUtf8_iff (bs : List Nat) : validUtf8 bs = true ↔ IsUtf8 bs :=
  ⟨sound bs.length bs (Nat.le_refl _), complete bs⟩

/-- every accepted string consists of bytes (< 256) -/
theorem validUtf8_bytes (bs : List Nat) (h : validUtf8 bs = true) : ∀ b ∈ bs, b < 256 := by
  obtain ⟨cs, hs, rfl⟩ := (validUtf8_iff bs).mp h
  intro b hb
  rw [List.mem_flatMap] at hb
  obtain ⟨c, hc, hbc⟩ := hb
  have := hs c hc
  unfold isScalar at this
  unfold enc at hbc
  (repeat' split at hbc) <;> simp at hbc <;> omega

/-! non-vacuity -/
example : validUtf8 [0xE2, 0x82, 0xAC, 0x41] = true := by decide            -- "€A"
example : validUtf8 [0xED, 0xA0, 0x80] = false := by decide                  -- surrogate
example : validUtf8 [0xC0, 0x80] = false := by decide                        -- overlong
example : validUtf8 [0xF4, 0x90, 0x80, 0x80] = false := by decide            -- > U+10FFFF
example : intoSlice 4 (fromSlice ⟨4096, 7⟩) = ⟨4096, 7⟩ := by decide
example : ownedDrop (ownedFrom ⟨4, 0⟩) = [⟨4, 0⟩] := by decide              -- zero-length box: dangling, non-null

open DiplomatModel.JsStr in
/-- **The UTF-8 view of a JS string covers exactly the bytes written**: the length `DiplomatBuf.str8` computes by
    walking code points is the number of bytes `TextEncoder` produces — for every string, well-formed or not
    (an unpaired surrogate is three bytes either way). -/
theorem js_str8_length_exact (us : List Nat) : str8Len us = (encode us).length := by
  unfold str8Len encode scalars
  induction codePoints us with
  | nil => rfl
  | cons c cs ih =>
    simp only [List.map_cons, List.sum_cons, List.flatMap_cons, List.length_append, enc_length, cpLen_scalarOf, ih]

open DiplomatModel.JsStr in
/-- **… and Rust accepts it as a `str`**: the bytes written for any JS string (16-bit units) are well-formed UTF-8
    by the very check `diplomat_is_str` makes (`validUtf8`, proved equal to the Unicode definition above). -/
theorem js_str8_is_str (us : List Nat) (h : ∀ u ∈ us, u < 0x10000) : validUtf8 (encode us) = true := by
  rw [validUtf8_iff]
  refine ⟨scalars us, ?_, rfl⟩
  intro c hc
  unfold scalars at hc
  obtain ⟨d, hd, rfl⟩ := List.mem_map.mp hc
  exact scalarOf_isScalar d (codePoints_lt us h d hd)

open DiplomatModel.JsStr in
/-- a string cut through a surrogate pair ("a" + lead of U+1F600): four bytes, ending in U+FFFD -/
example : str8Len [0x61, 0xD83D] = 4 ∧ encode [0x61, 0xD83D] = [0x61, 0xEF, 0xBF, 0xBD]
    ∧ encode [0xD83D, 0xDE00] = [0xF0, 0x9F, 0x98, 0x80] := by decide

open DiplomatModel.JsStr in
/-- **The UTF-16 view of a JS string is exactly its code units**: what Rust reads from the `&[u16]` view over the
    bytes `DiplomatBuf.str16` wrote is the string, unit for unit — for every string, well-formed or not (no
    surrogate is touched), of any length. -/
theorem js_str16_roundtrip (us : List Nat) (h : ∀ u ∈ us, u < 0x10000) : decode16 (encode16 us) = us := by
  induction us with
  | nil => rfl
  | cons u us ih =>
    have hu := h u (List.mem_cons_self ..)
    have := ih (fun v hv => h v (List.mem_cons_of_mem _ hv))
    simp only [encode16, List.flatMap_cons, unitBytes, List.cons_append, List.nil_append, decode16] at *
    rw [this]; congr 1; omega

open DiplomatModel.JsStr in
/-- **… the buffer is exactly as large as the view**: the bytes written are twice the view's length, which is the
    size the buffer was allocated with and is freed with (so the view never reaches past the allocation, and
    `diplomat_free` gets the layout `diplomat_alloc` got). -/
theorem js_str16_size_exact (us : List Nat) :
    (encode16 us).length = str16Bytes us ∧ str16Bytes us = 2 * str16Len us := by
  refine ⟨?_, by simp [str16Bytes, str16Len, Nat.mul_comm]⟩
  induction us with
  | nil => rfl
  | cons u us ih => simp [encode16, unitBytes, str16Bytes] at *; omega

open DiplomatModel.JsStr in
/-- every byte written is a byte -/
theorem js_str16_bytes (us : List Nat) : ∀ b ∈ encode16 us, b < 256 := by
  intro b hb
  simp only [encode16, List.mem_flatMap, unitBytes] at hb
  obtain ⟨u, _, hbu⟩ := hb
  simp at hbu; omega

open DiplomatModel.JsStr in
/-- "é" + an unpaired lead surrogate: two units, four bytes, little-endian, the surrogate kept -/
example : str16Len [0xE9, 0xD83D] = 2 ∧ encode16 [0xE9, 0xD83D] = [0xE9, 0x00, 0x3D, 0xD8]
    ∧ decode16 (encode16 [0xE9, 0xD83D]) = [0xE9, 0xD83D] := by decide

open DiplomatModel.JsStr in
/-- **Size bounds of the UTF-8 view**: between one and three bytes per UTF-16 unit, for every JS string — the
    buffer `str8` allocates is never smaller than `string.length` and never larger than `3 * string.length`. -/
theorem js_str8_length_bounds (us : List Nat) (h : ∀ u ∈ us, u < 0x10000) :
    us.length ≤ str8Len us ∧ str8Len us ≤ 3 * us.length := by
  unfold str8Len
  fun_induction codePoints us with
  | case1 => simp
  | case2 u =>
    have := cpLen_pos u; have := cpLen_le3 u (h u (by simp)); simp; omega
  | case3 u v rest hc ih =>
    have : cpLen (pairValue u v) = 4 := by unfold cpLen pairValue; split <;> (try split) <;> (try split) <;> omega
    have := ih (fun w hw => h w (by simp [hw]))
    simp only [List.map_cons, List.sum_cons, List.length_cons]; omega
  | case4 u v rest hc ih =>
    have := cpLen_pos u; have := cpLen_le3 u (h u (by simp))
    have := ih (fun w hw => h w (List.mem_cons_of_mem _ hw))
    simp only [List.map_cons, List.sum_cons, List.length_cons] at *; omega

end DiplomatModel.Props.C16
