/-
  C11 — Enum variants carry the same numeric value in Rust and in every binding.

  Property theorems only.  `e.discs` is the discriminant list `ast::Enum::new` computes (tied to the
  code by correspondence and to rustc by the oracle); the `*ToFfi`/`*FromFfi` functions are the
  numeric meaning of the tables whose text is compared fragment-by-fragment with the real output.
-/
import DiplomatModel.Lemmas.Enum
namespace DiplomatModel.Props.C11
open DiplomatModel.EnumGen

/-- What rustc accepts: distinct discriminants, distinct variant names. -/
structure WF (e : EnumDef) : Prop where
  discsNodup : e.discs.Nodup
  namesNodup : e.names.Nodup

/-- rustc's rule for C-like enums: an explicit discriminant is itself, an implicit one is the
    previous plus one, the first implicit one is 0.  `discs` is exactly that rule. -/
theorem discs_spec (vs : List (Option Int)) :
    (discs vs).length = vs.length
    ∧ (∀ (i : Nat) (d : Int), vs[i]? = some (some d) → (discs vs)[i]? = some d)
    ∧ (vs[0]? = some none → (discs vs)[0]? = some 0)
    ∧ (∀ (i : Nat) (p : Int), vs[i + 1]? = some none → (discs vs)[i]? = some p → (discs vs)[i + 1]? = some (p + 1)) := by
  refine ⟨discsFrom_length _ _, fun i d h => discsFrom_getElem?_some _ _ i d h, ?_, ?_⟩
  · intro h; simpa [discs] using discsFrom_head_none (-1) vs h
  · intro i p h hp; exact discsFrom_succ_none _ _ i p h hp

/-- The three copies of the contiguity test (js `gen_enum`, dart `is_contiguous_enum`) mean
    "every discriminant equals its position". -/
theorem contiguous_iff (ds : List Int) :
    isContig ds = true ↔ ∀ i (h : i < ds.length), ds[i] = (i : Int) := by
  simpa [isContig] using isContigFrom_iff 0 ds

/-- Kotlin's incremental fold equals the direct definition. -/
theorem kotlin_fold_eq (e : EnumDef) :
    ktVariants e =
      if isContig e.discs then .contiguous e.names
      else .nonContiguous (e.rows.map fun r => (wrapI32 r.2, r.1)) := by
  have := ktFold_contig [] 0 e.rows rfl
  simp only [enumFrom, List.map_nil, List.nil_append] at this
  rw [rows_map_snd, rows_map_fst] at this
  unfold ktVariants isContig
  exact this

theorem i32_cast_safe (d : Int) (h : inI32 d) : wrapI32 d = d := by
  unfold inI32 at h; unfold wrapI32; omega


/-- C: the constant printed for variant `i` is rustc's discriminant. -/
theorem to_ffi_c (e : EnumDef) (i : Nat) (hi : i < e.vars.length) : cToFfi e i = some (e.discs[i]'(hiD e i hi)) := by
  unfold cToFfi
  rw [List.getElem?_eq_getElem (hiR e i hi), rows_getElem e i hi]; rfl

/-- C++: `Value` enumerator `i` has rustc's discriminant and `AsFFI` preserves it. -/
theorem to_ffi_cpp (e : EnumDef) (i : Nat) (hi : i < e.vars.length) : cppToFfi e i = some (e.discs[i]'(hiD e i hi)) := to_ffi_c e i hi

/-- C++: `FromFFI` of the discriminant Rust sends for variant `i` selects variant `i`. -/
theorem from_ffi_cpp (e : EnumDef) (i : Nat) (hi : i < e.vars.length) (wf : WF e) : cppFromFfi e (e.discs[i]'(hiD e i hi)) = some i := by
  unfold cppFromFfi
  have hmem : e.rows.any (fun r => r.2 == e.discs[i]'(hiD e i hi)) = true := by
    rw [List.any_eq_true]
    exact ⟨e.rows[i]'(hiR e i hi), List.getElem_mem _, by rw [rows_getElem e i hi]; simp⟩
  rw [if_pos hmem]
  have nd : (e.rows.map (·.2)).Nodup := by rw [rows_map_snd]; exact wf.discsNodup
  have := firstIdx_nodup (·.2) e.rows i (hiR e i hi) nd
  rw [rows_getElem e i hi] at this
  exact this

/-- Dart: `index` / `_ffi`. -/
theorem to_ffi_dart (e : EnumDef) (i : Nat) (hi : i < e.vars.length) : dartToFfi e i = some (e.discs[i]'(hiD e i hi)) := by
  unfold dartToFfi
  split
  next hc =>
    rw [if_pos (hiR e i hi)]
    rw [((contiguous_iff _).mp hc) i (hiD e i hi)]
  next => exact to_ffi_c e i hi

/-- Dart: `values[n]` / `firstWhere((v) => v._ffi == n)`. -/
theorem from_ffi_dart (e : EnumDef) (i : Nat) (hi : i < e.vars.length) (wf : WF e) : dartFromFfi e (e.discs[i]'(hiD e i hi)) = some i := by
  unfold dartFromFfi
  split
  next hc =>
    have hd := ((contiguous_iff _).mp hc) i (hiD e i hi)
    rw [hd]
    have : (0 : Int) ≤ (i : Int) ∧ (i : Int).toNat < e.rows.length := by
      refine ⟨by omega, ?_⟩
      simp [rows_length, hi]
    rw [if_pos this]; simp
  next =>
    have nd : (e.rows.map (·.2)).Nodup := by rw [rows_map_snd]; exact wf.discsNodup
    have := firstIdx_nodup (·.2) e.rows i (hiR e i hi) nd
    rw [rows_getElem e i hi] at this
    exact this

/-- Kotlin: `toNative()` (`ordinal` or `inner`) is rustc's discriminant, for discriminants within i32. -/
theorem to_ffi_kotlin (e : EnumDef) (i : Nat) (hi : i < e.vars.length) (h32 : ∀ d ∈ e.discs, inI32 d) :
    ktToFfi (ktVariants e) i = some (e.discs[i]'(hiD e i hi)) := by
  rw [kotlin_fold_eq]
  split
  next hc =>
    simp only [ktToFfi]
    rw [if_pos (hiN e i hi), ((contiguous_iff _).mp hc) i (hiD e i hi)]
  next =>
    simp only [ktToFfi]
    rw [List.getElem?_map, List.getElem?_eq_getElem (hiR e i hi), rows_getElem e i hi]
    simp only [Option.map_some]
    rw [i32_cast_safe _ (h32 _ (List.getElem_mem _))]

/-- Kotlin: `fromNative(n)` (`entries[n]` or `when`) selects the variant named like Rust's. -/
theorem from_ffi_kotlin (e : EnumDef) (i : Nat) (hi : i < e.vars.length) (wf : WF e) (h32 : ∀ d ∈ e.discs, inI32 d) :
    ktFromFfi (ktVariants e) (e.discs[i]'(hiD e i hi)) = some (e.names[i]'(hiN e i hi)) := by
  rw [kotlin_fold_eq]
  split
  next hc =>
    simp only [ktFromFfi]
    rw [((contiguous_iff _).mp hc) i (hiD e i hi)]
    have : (0 : Int) ≤ (i : Int) := by omega
    rw [if_pos this]; simp [List.getElem?_eq_getElem (hiN e i hi)]
  next =>
    simp only [ktFromFfi]
    have hw : ∀ r ∈ e.rows, wrapI32 r.2 = r.2 := by
      intro r hr
      apply i32_cast_safe
      apply h32
      rw [← rows_map_snd]; exact List.mem_map.mpr ⟨r, hr, rfl⟩
    have hmap : e.rows.map (fun r => (wrapI32 r.2, r.1)) = e.rows.map (fun r => (r.2, r.1)) :=
      List.map_congr_left (fun r hr => by rw [hw r hr])
    rw [hmap]
    have nd : ((e.rows.map (fun r => (r.2, r.1))).map (·.1)).Nodup := by
      simp only [List.map_map]
      have : ((fun (p : Int × String) => p.1) ∘ fun (r : String × Int) => (r.2, r.1)) = (·.2) := rfl
      rw [this, rows_map_snd]; exact wf.discsNodup
    have hl : i < (e.rows.map (fun r => (r.2, r.1))).length := by simp [rows_length, hi]
    have := find?_nodup (·.1) (e.rows.map (fun r => (r.2, r.1))) i hl nd
    simp only [List.getElem_map, rows_getElem e i hi] at this
    rw [this]; rfl

/-- JS: `#objectValues[d]` for the discriminant of variant `i` is the object storing that discriminant. -/
theorem js_obj (e : EnumDef) (i : Nat) (hi : i < e.vars.length) (wf : WF e) :
    jsObj (jsEnum e) (e.discs[i]'(hiD e i hi)) = some (e.discs[i]'(hiD e i hi)) := by
  unfold jsObj jsEnum
  simp only
  split
  next hc =>
    have hd := ((contiguous_iff _).mp hc) i (hiD e i hi)
    have := find_enumFrom 0 e.discs i (hiD e i hi)
    simp only [Nat.zero_add] at this
    rw [hd] at this ⊢
    rw [this]; simp [hd]
  next =>
    have nd : ((e.discs.map (fun d => (d, d))).map (·.1)).Nodup := by
      simp only [List.map_map]
      have : ((fun (p : Int × Int) => p.1) ∘ fun (d : Int) => (d, d)) = id := rfl
      rw [this, List.map_id]; exact wf.discsNodup
    have hl : i < (e.discs.map (fun d => (d, d))).length := by simp [discs_length, hi]
    have := find?_nodup (·.1) (e.discs.map (fun d => (d, d))) i hl nd
    simp only [List.getElem_map] at this
    rw [this]; rfl

/-- JS: the `ffiValue` of `static NAME_i` is rustc's discriminant. -/
theorem to_ffi_js (e : EnumDef) (i : Nat) (hi : i < e.vars.length) (wf : WF e) :
    jsToFfi (jsEnum e) i = some (e.discs[i]'(hiD e i hi)) := by
  unfold jsToFfi
  have hs : (jsEnum e).statics = e.rows := rfl
  rw [hs, List.getElem?_eq_getElem (hiR e i hi), rows_getElem e i hi]
  simp only [Option.bind_eq_bind, Option.bind_some]
  exact js_obj e i hi wf

/-- JS: an object built from the discriminant Rust sends for variant `i` reports variant `i`'s name. -/
theorem from_ffi_js (e : EnumDef) (i : Nat) (hi : i < e.vars.length) (wf : WF e) :
    jsFromFfi (jsEnum e) (e.discs[i]'(hiD e i hi)) = some (e.names[i]'(hiN e i hi)) := by
  unfold jsFromFfi
  rw [js_obj e i hi wf]
  simp only [Option.bind_eq_bind, Option.bind_some]
  unfold jsValueName
  have hv : (jsEnum e).values = e.rows := rfl
  have hcg : (jsEnum e).contiguous = isContig e.discs := rfl
  rw [hv, hcg]
  split
  next hc =>
    have hd := ((contiguous_iff _).mp hc) i (hiD e i hi)
    rw [hd]
    have : (0 : Int) ≤ (i : Int) := by omega
    rw [if_pos this]
    simp [List.getElem?_eq_getElem (hiR e i hi), rows_getElem e i hi]
  next =>
    have nd : (e.rows.map (·.2)).Nodup := by rw [rows_map_snd]; exact wf.discsNodup
    have := find?_nodup (·.2) e.rows i (hiR e i hi) nd
    rw [rows_getElem e i hi] at this
    simp only at this
    rw [this]; rfl

/-- nanobind: the Python enumerator named like variant `i` is bound to the C++ enumerator with
    rustc's discriminant. -/
theorem to_ffi_python (e : EnumDef) (i : Nat) (hi : i < e.vars.length) (wf : WF e) : pyToFfi e i = some (e.discs[i]'(hiD e i hi)) := by
  unfold pyToFfi
  rw [List.getElem?_eq_getElem (hiN e i hi)]
  simp only [Option.bind_eq_bind, Option.bind_some]
  have nd : (e.rows.map (·.1)).Nodup := by rw [rows_map_fst]; exact wf.namesNodup
  have := find?_nodup (·.1) e.rows i (hiR e i hi) nd
  rw [rows_getElem e i hi] at this
  simp only at this
  rw [this]; rfl


/-! Non-vacuity: a concrete enum with explicit, negative, non-monotonic and implicit discriminants
    meets the hypotheses, and the statements compute to what rustc prints for it. -/
def sample : EnumDef := { name := "En", vars := [("Va", some 1), ("Vb", none), ("Vc", some (-3)), ("Vd", none)] }
example : sample.discs = [1, 2, -3, -2] := by decide
example : WF sample := ⟨by decide, by decide⟩
example : ∀ d ∈ sample.discs, inI32 d := by decide
example : isContig sample.discs = false := by decide
example : ktFromFfi (ktVariants sample) (-3) = some "Vc" := by decide
example : jsFromFfi (jsEnum sample) (-2) = some "Vd" := by decide

end DiplomatModel.Props.C11
