/-
  C05 — The lowering gate accepts exactly the documented FFI-safe API shapes.

  `OutOk` / `InOk` / `SelfOk` / `RetOk` are the documented shapes written as a positive grammar (what may
  appear where); `outErrs` / `inErrs` / … are the transcription of the gate's checks.  The theorems say
  the gate reports no error exactly on the grammar, for types of any nesting depth, and that every
  error carries its type (and method) as context.
-/
import DiplomatModel.Lower
namespace DiplomatModel.Props.C05
open DiplomatModel.Lower

/-- documented shapes of output types (returns, out-struct fields) -/
inductive OutOk (env : Env) (sup : Support) : Bool → Bool → TyName → Prop
  | prim (is iro p) : OutOk env sup is iro (.prim p)
  | ordering (iro) : OutOk env sup false iro .ordering
  | struct (is iro n out fields) : env.get n = some (.struct out fields) → (iro = true ∨ fields.isEmpty = false) →
      OutOk env sup is iro (.named n)
  | enum (is iro n) : env.get n = some .enumTy → OutOk env sup is iro (.named n)
  | refOpaque (is iro lt m t) : isOpaque env t = true → OutOk env sup is iro (.ref lt m t)
  | boxOpaque (is iro t) : isOpaque env t = true → OutOk env sup is iro (.box t)
  | optRefOpaque (is iro lt m t) : isOpaque env t = true → OutOk env sup is iro (.opt (.ref lt m t) .std)
  | optBoxOpaque (is iro t) : isOpaque env t = true → OutOk env sup is iro (.opt (.box t) .std)
  | optNamed (is iro n sd) : isOpaque env (.named n) = false → (is && decide (sd = .std)) = false →
      sup.option = true → OutOk env sup is false (.named n) → OutOk env sup is iro (.opt (.named n) sd)
  | optPrim (is iro p sd) : (is && decide (sd = .std)) = false → sup.option = true →
      OutOk env sup is iro (.opt (.prim p) sd)
  | borrowedStr (is iro lt e sd) : OutOk env sup is iro (.strRef (some lt) e sd)
  | borrowedSlice (is iro ltm p sd) : OutOk env sup is iro (.primSlice (some ltm) p sd)

theorem outErrs_named (env : Env) (sup : Support) (is iro : Bool) (n : String) :
    outErrs env sup is iro (.named n) = [] ↔ OutOk env sup is iro (.named n) := by
  constructor
  · intro h
    unfold outErrs at h
    cases hg : env.get n with
    | none => simp [hg] at h
    | some c =>
      cases c with
      | struct out fields =>
        simp only [hg] at h
        apply OutOk.struct is iro n out fields hg
        by_cases hi : iro = true
        · exact Or.inl hi
        · right
          cases hf : fields.isEmpty with
          | false => rfl
          | true => simp [hi, hf] at h
      | opaqueTy => simp [hg] at h
      | enumTy => exact OutOk.enum is iro n hg
  · intro h
    cases h with
    | struct _ _ _ out fields hg hz =>
      unfold outErrs; simp only [hg]
      rcases hz with h1 | h1 <;> simp [h1]
    | enum _ _ _ hg => unfold outErrs; simp [hg]

/-- **The gate on output types.** No error is reported exactly for the documented output shapes. -/
theorem out_gate_iff (env : Env) (sup : Support) (is iro : Bool) (t : TyName) :
    outErrs env sup is iro t = [] ↔ OutOk env sup is iro t := by
  cases t with
  | prim p => exact ⟨fun _ => OutOk.prim is iro p, fun _ => by simp [outErrs]⟩
  | named n => exact outErrs_named env sup is iro n
  | ordering =>
    constructor
    · intro h; cases is with
      | false => exact OutOk.ordering iro
      | true => simp [outErrs] at h
    · intro h; cases h; simp [outErrs]
  | ref lt m t =>
    constructor
    · intro h
      by_cases ho : isOpaque env t = true
      · exact OutOk.refOpaque is iro lt m t ho
      · simp only [outErrs, ho, Bool.false_eq_true, if_false] at h
        split at h <;> simp at h
    · intro h; cases h with | refOpaque _ _ _ _ _ ho => simp [outErrs, ho]
  | box t =>
    constructor
    · intro h
      by_cases ho : isOpaque env t = true
      · exact OutOk.boxOpaque is iro t ho
      · simp [outErrs, ho] at h
    · intro h; cases h with | boxOpaque _ _ _ ho => simp [outErrs, ho]
  | opt t sd =>
    cases t
    case ref lt m r =>
      constructor
      · intro h
        by_cases ho : isOpaque env r = true
        · cases sd with
          | std => exact OutOk.optRefOpaque is iro lt m r ho
          | dip => simp [outErrs, ho] at h
        · simp [outErrs, ho] at h
      · intro h; cases h with | optRefOpaque _ _ _ _ _ ho => simp [outErrs, ho]
    case box b =>
      constructor
      · intro h
        by_cases ho : isOpaque env b = true
        · cases sd with
          | std => exact OutOk.optBoxOpaque is iro b ho
          | dip => simp [outErrs, ho] at h
        · simp [outErrs, ho] at h
      · intro h; cases h with | optBoxOpaque _ _ _ ho => simp [outErrs, ho]
    case named n =>
      constructor
      · intro h
        unfold outErrs at h
        by_cases ho : isOpaque env (.named n) = true
        · simp [ho] at h
        · have ho' : isOpaque env (.named n) = false := by simpa using ho
          simp only [ho', Bool.false_eq_true, if_false] at h
          by_cases hs : (is && decide (sd = .std)) = true
          · simp [hs] at h
          · have hs' : (is && decide (sd = .std)) = false := by simpa using hs
            simp only [hs', Bool.false_eq_true, if_false, List.append_eq_nil_iff] at h
            have hopt : sup.option = true := by
              by_cases hx : sup.option = true
              · exact hx
              · simp [hx] at h
            exact OutOk.optNamed is iro n sd ho' hs' hopt ((outErrs_named env sup is false n).mp h.2)
      · intro h
        cases h with
        | optNamed _ _ _ _ ho hs hopt hin =>
          unfold outErrs
          simp only [ho, Bool.false_eq_true, if_false, hs, hopt, if_true, List.nil_append]
          exact (outErrs_named env sup is false n).mpr hin
    case prim p =>
      constructor
      · intro h
        unfold outErrs at h
        by_cases hs : (is && decide (sd = .std)) = true
        · simp [hs] at h
        · have hs' : (is && decide (sd = .std)) = false := by simpa using hs
          simp only [hs', Bool.false_eq_true, if_false] at h
          have hopt : sup.option = true := by
            by_cases hx : sup.option = true
            · exact hx
            · simp [hx] at h
          exact OutOk.optPrim is iro p sd hs' hopt
      · intro h; cases h with | optPrim _ _ _ _ hs hopt => simp [outErrs, hs, hopt]
    all_goals exact ⟨fun h => by simp [outErrs] at h, fun h => by cases h⟩
  | res a b sd => exact ⟨fun h => by simp [outErrs] at h, fun h => by cases h⟩
  | write => exact ⟨fun h => by simp [outErrs] at h, fun h => by cases h⟩
  | strRef lt e sd =>
    cases lt with
    | none => exact ⟨fun h => by simp [outErrs] at h, fun h => by cases h⟩
    | some l => exact ⟨fun _ => OutOk.borrowedStr is iro l e sd, fun _ => by simp [outErrs]⟩
  | primSlice ltm p sd =>
    cases ltm with
    | none => exact ⟨fun h => by simp [outErrs] at h, fun h => by cases h⟩
    | some l => exact ⟨fun _ => OutOk.borrowedSlice is iro l p sd, fun _ => by simp [outErrs]⟩
  | strSlice e sd => exact ⟨fun h => by simp [outErrs] at h, fun h => by cases h⟩
  | unit => exact ⟨fun h => by simp [outErrs] at h, fun h => by cases h⟩
  | fn ps r => exact ⟨fun h => by simp [outErrs] at h, fun h => by cases h⟩


/-- documented shapes of input types (parameters, struct fields). The callback clause refers to the
    callback-parameter and callback-return checks directly (see `callback_param_ok`). -/
inductive InOk (env : Env) (sup : Support) : Bool → TyName → Prop
  | prim (is p) : InOk env sup is (.prim p)
  | struct (is n fields) : env.get n = some (.struct false fields) → fields.isEmpty = false → InOk env sup is (.named n)
  | enum (is n) : env.get n = some .enumTy → InOk env sup is (.named n)
  | refOpaque (is lt m t) : isOpaque env t = true → InOk env sup is (.ref lt m t)
  | optRefOpaque (is lt m t) : isOpaque env t = true → InOk env sup is (.opt (.ref lt m t) .std)
  | optNamed (is n sd) : isOpaque env (.named n) = false → (is && decide (sd = .std)) = false →
      sup.option = true → InOk env sup is (.named n) → InOk env sup is (.opt (.named n) sd)
  | optPrim (is p sd) : (is && decide (sd = .std)) = false → sup.option = true → InOk env sup is (.opt (.prim p) sd)
  | optStrs (is e s sd) : sup.option = true → InOk env sup is (.opt (.strSlice e s) sd)
  | optStr (is lt e s sd) : sup.option = true → InOk env sup is (.strRef lt e s) → InOk env sup is (.opt (.strRef lt e s) sd)
  | optSlice (is ltm p s sd) : sup.option = true → InOk env sup is (.primSlice ltm p s) → InOk env sup is (.opt (.primSlice ltm p s) sd)
  | str (is lt e sd) : (lt = some .static → sup.staticSlices = true) → InOk env sup is (.strRef lt e sd)
  | strs (is e sd) : InOk env sup is (.strSlice e sd)
  | slice (is ltm p sd) : (ltm.map (·.1) = some .static → sup.staticSlices = true) → InOk env sup is (.primSlice ltm p sd)
  | callback (ps r) : sup.callbacks = true → (ps.flatMap (callbackParamErrs env sup) = []) →
      ((match r with | .unit => [] | .fn .. => [Rule.fnInOutput] | r => inErrs.inErrsFlat env sup r) = []) →
      InOk env sup false (.fn ps r)

theorem staticErr_nil (sup : Support) (lt : Option Lt) :
    staticErr sup lt = [] ↔ (lt = some .static → sup.staticSlices = true) := by
  unfold staticErr
  by_cases h : lt = some .static
  · by_cases hs : sup.staticSlices = true <;> simp [h, hs]
  · simp [h]

theorem inErrs_named (env : Env) (sup : Support) (is : Bool) (n : String) :
    inErrs env sup is (.named n) = [] ↔ InOk env sup is (.named n) := by
  constructor
  · intro h
    unfold inErrs at h
    cases hg : env.get n with
    | none => simp [hg] at h
    | some c =>
      cases c with
      | struct out fields =>
        simp only [hg] at h
        cases hf : fields.isEmpty with
        | true => simp [hf] at h
        | false =>
          cases out with
          | true => simp [hf] at h
          | false => exact InOk.struct is n fields hg hf
      | opaqueTy => simp [hg] at h
      | enumTy => exact InOk.enum is n hg
  · intro h
    cases h with
    | struct _ _ fields hg hz => unfold inErrs; simp [hg, hz]
    | enum _ _ hg => unfold inErrs; simp [hg]

theorem inErrs_str (env : Env) (sup : Support) (is : Bool) (lt : Option Lt) (e : Enc) (sd : Sd) :
    inErrs env sup is (.strRef lt e sd) = [] ↔ InOk env sup is (.strRef lt e sd) := by
  constructor
  · intro h; unfold inErrs at h; exact InOk.str is lt e sd ((staticErr_nil sup lt).mp h)
  · intro h; cases h with | str _ _ _ _ hs => unfold inErrs; exact (staticErr_nil sup lt).mpr hs

theorem inErrs_slice (env : Env) (sup : Support) (is : Bool) (ltm : Option (Lt × Bool)) (p : Prim) (sd : Sd) :
    inErrs env sup is (.primSlice ltm p sd) = [] ↔ InOk env sup is (.primSlice ltm p sd) := by
  constructor
  · intro h; unfold inErrs at h; exact InOk.slice is ltm p sd ((staticErr_nil sup _).mp h)
  · intro h; cases h with | slice _ _ _ _ hs => unfold inErrs; exact (staticErr_nil sup _).mpr hs

/-- **The gate on input types.** No error is reported exactly for the documented input shapes. -/
theorem in_gate_iff (env : Env) (sup : Support) (is : Bool) (t : TyName) :
    inErrs env sup is t = [] ↔ InOk env sup is t := by
  cases t
  case prim p => exact ⟨fun _ => InOk.prim is p, fun _ => by simp [inErrs]⟩
  case named n => exact inErrs_named env sup is n
  case strRef lt e sd => exact inErrs_str env sup is lt e sd
  case primSlice ltm p sd => exact inErrs_slice env sup is ltm p sd
  case strSlice e sd => exact ⟨fun _ => InOk.strs is e sd, fun _ => by simp [inErrs]⟩
  case ref lt m t =>
    constructor
    · intro h
      by_cases ho : isOpaque env t = true
      · exact InOk.refOpaque is lt m t ho
      · simp only [inErrs, ho, Bool.false_eq_true, if_false] at h
        split at h <;> simp at h
    · intro h; cases h with | refOpaque _ _ _ _ ho => simp [inErrs, ho]
  case fn ps r =>
    constructor
    · intro h
      unfold inErrs at h
      simp only [List.append_eq_nil_iff] at h
      obtain ⟨hc, hrest⟩ := h
      have hcb : sup.callbacks = true := by
        by_cases hx : sup.callbacks = true
        · exact hx
        · simp [hx] at hc
      cases is with
      | true => simp at hrest
      | false =>
        simp only [Bool.false_eq_true, if_false, List.append_eq_nil_iff] at hrest
        exact InOk.callback ps r hcb hrest.1 hrest.2
    · intro h
      cases h with
      | callback _ _ hcb hp hr =>
        unfold inErrs
        simp only [hcb, if_true, Bool.false_eq_true, if_false, List.nil_append, List.append_eq_nil_iff]
        exact ⟨hp, hr⟩
  case opt t sd =>
    cases t
    case ref lt m r =>
      constructor
      · intro h
        by_cases ho : isOpaque env r = true
        · cases sd with
          | std => exact InOk.optRefOpaque is lt m r ho
          | dip => simp [inErrs, ho] at h
        · simp [inErrs, ho] at h
      · intro h; cases h with | optRefOpaque _ _ _ _ ho => simp [inErrs, ho]
    case named n =>
      constructor
      · intro h
        unfold inErrs at h
        by_cases ho : isOpaque env (.named n) = true
        · simp [ho] at h
        · have ho' : isOpaque env (.named n) = false := by simpa using ho
          simp only [ho', Bool.false_eq_true, if_false] at h
          by_cases hs : (is && decide (sd = .std)) = true
          · simp [hs] at h
          · have hs' : (is && decide (sd = .std)) = false := by simpa using hs
            simp only [hs', Bool.false_eq_true, if_false, List.append_eq_nil_iff] at h
            have hopt : sup.option = true := by
              by_cases hx : sup.option = true
              · exact hx
              · simp [hx] at h
            exact InOk.optNamed is n sd ho' hs' hopt ((inErrs_named env sup is n).mp h.2)
      · intro h
        cases h with
        | optNamed _ _ _ ho hs hopt hin =>
          unfold inErrs
          simp only [ho, Bool.false_eq_true, if_false, hs, hopt, if_true, List.nil_append]
          exact (inErrs_named env sup is n).mpr hin
    case prim p =>
      constructor
      · intro h
        unfold inErrs at h
        by_cases hs : (is && decide (sd = .std)) = true
        · simp [hs] at h
        · have hs' : (is && decide (sd = .std)) = false := by simpa using hs
          simp only [hs', Bool.false_eq_true, if_false] at h
          have hopt : sup.option = true := by
            by_cases hx : sup.option = true
            · exact hx
            · simp [hx] at h
          exact InOk.optPrim is p sd hs' hopt
      · intro h; cases h with | optPrim _ _ _ hs hopt => simp [inErrs, hs, hopt]
    case strSlice e s =>
      constructor
      · intro h
        unfold inErrs at h
        have hopt : sup.option = true := by
          by_cases hx : sup.option = true
          · exact hx
          · simp [hx] at h
        exact InOk.optStrs is e s sd hopt
      · intro h; cases h with | optStrs _ _ _ _ hopt => simp [inErrs, hopt]
    case strRef lt e s =>
      constructor
      · intro h
        unfold inErrs at h
        simp only [List.append_eq_nil_iff] at h
        have hopt : sup.option = true := by
          by_cases hx : sup.option = true
          · exact hx
          · simp [hx] at h
        exact InOk.optStr is lt e s sd hopt ((inErrs_str env sup is lt e s).mp h.2)
      · intro h
        cases h with
        | optStr _ _ _ _ _ hopt hi =>
          unfold inErrs
          simp only [hopt, if_true, List.nil_append]
          exact (inErrs_str env sup is lt e s).mpr hi
    case primSlice ltm p s =>
      constructor
      · intro h
        unfold inErrs at h
        simp only [List.append_eq_nil_iff] at h
        have hopt : sup.option = true := by
          by_cases hx : sup.option = true
          · exact hx
          · simp [hx] at h
        exact InOk.optSlice is ltm p s sd hopt ((inErrs_slice env sup is ltm p s).mp h.2)
      · intro h
        cases h with
        | optSlice _ _ _ _ _ hopt hi =>
          unfold inErrs
          simp only [hopt, if_true, List.nil_append]
          exact (inErrs_slice env sup is ltm p s).mpr hi
    all_goals exact ⟨fun h => by simp [inErrs] at h, fun h => by cases h⟩
  all_goals exact ⟨fun h => by simp [inErrs] at h, fun h => by cases h⟩


/-- documented `self` shapes (book/src/structs.md: structs and enums may have methods "which capture `self`
    by-value"): structs by value (never out-structs), opaques by reference, enums by value -/
inductive SelfOk (env : Env) : SelfParam → Prop
  | struct (ty fields) : env.get ty = some (.struct false fields) → SelfOk env ⟨ty, false⟩
  | opaqueRef (ty) : env.get ty = some .opaqueTy → SelfOk env ⟨ty, true⟩
  | enum (ty) : env.get ty = some .enumTy → SelfOk env ⟨ty, false⟩

theorem self_gate_iff (env : Env) (s : SelfParam) : selfErrs env s = [] ↔ SelfOk env s := by
  obtain ⟨ty, r⟩ := s
  constructor
  · intro h
    unfold selfErrs at h
    simp only at h
    cases hg : env.get ty with
    | none => simp [hg] at h
    | some c =>
      cases c with
      | struct out fields =>
        cases out <;> cases r <;> simp [hg] at h
        exact SelfOk.struct ty fields hg
      | opaqueTy =>
        cases r <;> simp [hg] at h
        exact SelfOk.opaqueRef ty hg
      | enumTy =>
        cases r <;> simp [hg] at h
        exact SelfOk.enum ty hg
  · intro h
    cases h with
    | struct _ fields hg => simp [selfErrs, hg]
    | opaqueRef _ hg => simp [selfErrs, hg]
    | enum _ hg => simp [selfErrs, hg]

/-- documented return shapes: nothing / unit, `Result` only at top level with unit-or-output arms,
    `Option` of a pointer, of unit, or of an output payload, or a plain output type -/
def RetOk (env : Env) (sup : Support) : Option TyName → Prop
  | none => True
  | some .unit => True
  | some (.res ok err _) =>
    (ok = .unit ∨ OutOk env sup false true ok) ∧ (err = .unit ∨ OutOk env sup false true err)
  | some (.opt v sd) =>
    match v with
    | .box _ | .ref .. => OutOk env sup false true (.opt v sd)
    | .unit => True
    | t => OutOk env sup false true t
  | some t => OutOk env sup false false t

theorem unit_not_outOk (env : Env) (sup : Support) (a b : Bool) : ¬ OutOk env sup a b .unit := by
  intro h; cases h

theorem ret_gate_iff (env : Env) (sup : Support) (r : Option TyName) :
    retErrs env sup r = [] ↔ RetOk env sup r := by
  cases r with
  | none => simp [retErrs, RetOk]
  | some t =>
    cases t
    case unit => simp [retErrs, RetOk]
    case res ok err sd =>
      simp only [retErrs, RetOk, List.append_eq_nil_iff]
      have hside : ∀ x : TyName, armErrs env sup x = [] ↔ (x = .unit ∨ OutOk env sup false true x) := by
        intro x
        by_cases hx : x = .unit
        · subst hx; simp [armErrs]
        · have : armErrs env sup x = outErrs env sup false true x := by
            cases x <;> simp [armErrs] at hx ⊢
          rw [this, out_gate_iff]; simp [hx]
      rw [hside ok, hside err]
    case opt v sd =>
      cases v <;> simp only [retErrs, RetOk] <;> first | exact out_gate_iff _ _ _ _ _ | simp
    all_goals (simp only [retErrs, RetOk]; exact out_gate_iff _ _ _ _ _)

/-- **Module level.** The gate accepts a module iff every type declaration is free of violations. -/
theorem module_gate_iff (sup : Support) (ts : List TypeDecl) :
    moduleErrs sup ts = [] ↔ ∀ t ∈ ts, typeErrs (ts.map fun t => (t.name, t.def_)) sup t = [] := by
  unfold moduleErrs
  simp only [List.flatMap_eq_nil_iff]

/-- a method is accepted only if `self`, every parameter (a trailing `&mut DiplomatWrite` apart) and the
    return type are documented shapes, a method that writes its output returns nothing besides (unit, `Option<()>`
    or `Result<(), E>`), and no lifetime is elided in the return type -/
theorem method_gate (env : Env) (sup : Support) (m : Method) :
    methodErrs env sup m = [] ↔
      ((∀ s, m.self = some s → SelfOk env s)
       ∧ (∀ p ∈ inputParams m, InOk env sup false p.2)
       ∧ RetOk env sup m.ret
       ∧ (takesWrite m = true → writeRetOk m.ret = true)
       ∧ elisionErrs env m = []) := by
  have hwrite : writeErrs m = [] ↔ (takesWrite m = true → writeRetOk m.ret = true) := by
    unfold writeErrs
    cases takesWrite m <;> cases writeRetOk m.ret <;> simp
  have hshape : shapeErrs env sup m = [] ↔
      ((∀ s, m.self = some s → SelfOk env s) ∧ (∀ p ∈ inputParams m, InOk env sup false p.2) ∧ RetOk env sup m.ret
        ∧ (takesWrite m = true → writeRetOk m.ret = true)) := by
    unfold shapeErrs
    simp only [List.append_eq_nil_iff, List.flatMap_eq_nil_iff, ret_gate_iff, in_gate_iff, hwrite]
    constructor
    · rintro ⟨⟨⟨hs, hp⟩, hr⟩, hw⟩
      refine ⟨?_, hp, hr, hw⟩
      intro s hs'
      rw [hs'] at hs
      exact (self_gate_iff env s).mp hs
    · rintro ⟨hs, hp, hr, hw⟩
      refine ⟨⟨⟨?_, hp⟩, hr⟩, hw⟩
      cases hm : m.self with
      | none => rfl
      | some s => exact (self_gate_iff env s).mpr (hs s hm)
  unfold methodErrs
  by_cases he : (shapeErrs env sup m).isEmpty = true
  · have he' : shapeErrs env sup m = [] := by simpa using he
    rw [if_pos he]
    constructor
    · intro h
      obtain ⟨a, b, c, d⟩ := hshape.mp he'
      exact ⟨a, b, c, d, h⟩
    · intro h; exact h.2.2.2.2
  · rw [if_neg he]
    have hne : shapeErrs env sup m ≠ [] := by simpa using he
    constructor
    · intro h; exact absurd h hne
    · intro h; exact absurd (hshape.mpr ⟨h.1, h.2.1, h.2.2.1, h.2.2.2.1⟩) hne

/-- elision: a return type without anonymous lifetimes never trips the check -/
theorem no_elision_ok (env : Env) (m : Method) (h : retHasAnon m = false) :
    elisionErrs env m = [] := by
  unfold elisionErrs; simp [h]

/-- … and one with an anonymous lifetime is always rejected (or makes the elision machine panic) -/
theorem elided_return_rejected (env : Env) (m : Method) (h : retHasAnon m = true) :
    elisionErrs env m ≠ [] := by
  unfold elisionErrs; simp only [h, if_true]; (repeat' split) <;> simp

/-- **Error context.** Every error carries the type it arose in, and the method when it arose in one. -/
theorem error_context (sup : Support) (ts : List TypeDecl) :
    ∀ e ∈ moduleErrs sup ts, ∃ t ∈ ts, e.1 = t.name ∨ ∃ m ∈ t.methods, e.1 = t.name ++ "::" ++ m.name := by
  intro e he
  unfold moduleErrs at he
  rw [List.mem_flatMap] at he
  obtain ⟨t, ht, het⟩ := he
  refine ⟨t, ht, ?_⟩
  have hm : ∀ e ∈ (t.methods.flatMap fun m =>
      (methodErrs (ts.map fun t => (t.name, t.def_)) sup m).map fun r => (t.name ++ "::" ++ m.name, r)),
      ∃ m ∈ t.methods, e.1 = t.name ++ "::" ++ m.name := by
    intro e he
    rw [List.mem_flatMap] at he
    obtain ⟨m, hm, hem⟩ := he
    rw [List.mem_map] at hem
    obtain ⟨r, _, rfl⟩ := hem
    exact ⟨m, hm, rfl⟩
  unfold typeErrs at het
  simp only at het
  split at het
  · -- struct
    simp only [List.mem_append, List.mem_map] at het
    rcases het with ⟨r, _, rfl⟩ | het
    · exact Or.inl rfl
    · split at het
      · split at het
        · simp at het
        · simp at het; exact Or.inl (by rw [het])
      · exact Or.inr (hm e het)
  · -- out struct
    simp only [List.mem_append] at het
    rcases het with het | het
    · split at het
      · simp at het; exact Or.inl (by rw [het])
      · rw [List.mem_map] at het
        obtain ⟨r, _, rfl⟩ := het
        exact Or.inl rfl
    · exact Or.inr (hm e het)
  · exact Or.inr (hm e het)
  · exact Or.inr (hm e het)

/-! non-vacuity: a module using many type constructors is accepted; one fault is rejected with its context -/
def envEx : Env := [("Op", .opaqueTy), ("St", .struct false [("a", .prim .u8)]), ("En", .enumTy)]
def supEx : Support := ⟨true, true, true, false⟩
example : inErrs envEx supEx false (.opt (.ref (.named "a") false (.named "Op")) .std) = [] := by decide
example : outErrs envEx supEx false false (.opt (.box (.named "Op")) .std) = [] := by decide
example : retErrs envEx supEx (some (.res (.named "St") .unit .std)) = [] := by decide
example : inErrs envEx supEx false (.box (.named "Op")) = [.boxInInput] := by decide
example : moduleErrs supEx [⟨"En", .enumTy, [⟨"m", some ⟨"En", true⟩, [], none⟩]⟩] = [("En::m", .selfRefEnum)] := by decide
example : moduleErrs supEx [⟨"Op", .opaqueTy, [⟨"m", some ⟨"Op", true⟩, [("w", .write)], some (.prim .u32)⟩]⟩] = [("Op::m", .writeWithValue)] := by decide
example : moduleErrs supEx [⟨"Op", .opaqueTy, [⟨"m", some ⟨"Op", false⟩, [], none⟩]⟩] = [("Op::m", .selfOpaqueByValue)] := by decide

end DiplomatModel.Props.C05
