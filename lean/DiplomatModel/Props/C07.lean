/-
  C07 — Dart and Kotlin native declarations match each function's and struct's C ABI.

  The C ABI of a declaration is C01's `cAbi ∘ cTy` (tied to the real C header and proved equal to the Rust
  `extern "C"` signature there).  Here: the primitive tables of the Dart and Kotlin formatters (regenerated
  from the source on every run) give, through the documented meaning of dart:ffi / JNA type names, the same
  width, signedness and float kind as the C type; the generators' parameter types have the C parameter's
  wire description — pointer vs by-value, record shapes.

  The full statement is FALSE for three Kotlin rows on the unchanged tree (recorded findings, see below);
  the theorem is proved for all other rows and the three rows are exhibited as witnesses.
-/
import DiplomatModel.DartKt
import DiplomatModel.Props.C01
import DiplomatModel.KtNative
import DiplomatModel.Lemmas.Cpp
namespace DiplomatModel.Props.C07
open DiplomatModel.Lower DiplomatModel.AbiGen DiplomatModel.DartKt DiplomatModel.Props.C05 DiplomatModel.Props.C01

/-! ### primitive rows -/

/-- **Dart.** Every primitive's dart:ffi annotation has the Rust primitive's width, signedness, float kind. -/
theorem dart_prim_agree (p : Prim) (h : is128 p = false) :
    (dartPrim p).bind dartFfiAbi = some (rustPrimAbi p) := by
  cases p <;> first | (simp [is128] at h; done) | decide

/-- … hence the C type's (C01's primitive theorem). -/
theorem dart_prim_matches_c (p : Prim) (h : is128 p = false) :
    (dartPrim p).bind dartFfiAbi = (cPrimName p).bind cNameAbi := by
  rw [dart_prim_agree p h, prim_abi_agree p h]

/-- **Kotlin** (partial). Every primitive except `bool`, `DiplomatChar`, `DiplomatByte` has a JNA type of the
    Rust primitive's width and signedness. -/
theorem kt_prim_agree_partial (p : Prim) (h : is128 p = false) (hk : ktMismatch p = false) :
    (ktPrim p).bind jnaAbi = some (rustPrimAbi p) := by
  cases p <;> first | (simp [is128] at h; done) | (simp [ktMismatch] at hk; done) | decide

theorem kt_prim_matches_c_partial (p : Prim) (h : is128 p = false) (hk : ktMismatch p = false) :
    (ktPrim p).bind jnaAbi = (cPrimName p).bind cNameAbi := by
  rw [kt_prim_agree_partial p h hk, prim_abi_agree p h]

/-- The three excluded rows really differ (so the exclusion is not a convenience): JNA passes a Kotlin
    `Boolean` as a 32-bit `int` where C has an 8-bit `bool`; `DiplomatChar` (u32) is declared `Int` (signed);
    `DiplomatByte` (u8) is declared `Byte` (signed).  Widths agree for the last two, signedness does not. -/
theorem kt_prim_mismatch_rows :
    (ktPrim .bool).bind jnaAbi = some [.int 32 true] ∧ rustPrimAbi .bool = [.bool]
    ∧ (ktPrim .char).bind jnaAbi = some [.int 32 true] ∧ rustPrimAbi .char = [.int 32 false]
    ∧ (ktPrim .byte).bind jnaAbi = some [.int 8 true] ∧ rustPrimAbi .byte = [.int 8 false] := by
  decide

/-! ### parameter types -/

theorem sameWire_view : sameWire (some viewAbi) (some viewAbi) = true := by decide

/-- **Dart parameters** (for the modelled part of the grammar: primitives, enums, structs by value, opaque
    references, optional opaque references, strings, the write buffer). The native parameter type has the C
    parameter's wire description: same scalar, a pointer where C has a pointer, the struct by value where C
    passes it by value, `{pointer, size}` for strings. -/
theorem dart_param_agree_partial (env : Env) (sup : Support) (t : TyName)
    (h : InOk env sup false t) (h128 : has128 t = false)
    (hm : ∃ d, dartParamTy env t = some d) :
    ∃ d c, dartParamTy env t = some d ∧ cTy env t = some c ∧ sameWire (cAbi c) (dAbiSimple d) = true := by
  obtain ⟨d, hd⟩ := hm
  cases h with
  | prim _ p =>
    obtain ⟨c, hc, ha⟩ := cPrim_some p (by simpa [has128] using h128)
    have hp := dart_prim_agree p (by simpa [has128] using h128)
    cases hdp : dartPrim p with
    | none => simp [hdp] at hp
    | some f =>
      refine ⟨.prim f, .prim c, by simp [dartParamTy, hdp], by simp [cTy, hc], ?_⟩
      have hf : dartFfiAbi f = some (rustPrimAbi p) := by simpa [hdp] using hp
      simp [sameWire, cAbiSimple, dAbiSimple, ha, hf]
  | struct _ n fields hg hne =>
    exact ⟨.structTy n, .structTy n, by simp [dartParamTy, hg], by simp [cTy, hg], by simp [sameWire, cAbiSimple, dAbiSimple]⟩
  | enum _ n hg =>
    exact ⟨.enumTy, .enumTy n, by simp [dartParamTy, hg], by simp [cTy, hg], by simp [sameWire, cAbiSimple, dAbiSimple, normTok]⟩
  | refOpaque _ lt m t ho =>
    obtain ⟨n, rfl, hn⟩ := isOpaque_named ho
    exact ⟨.opaquePtr, .opaquePtr (!m) n, by simp [dartParamTy, hn], by simp [cTy, hn], by simp [sameWire, cAbiSimple, dAbiSimple]⟩
  | optRefOpaque _ lt m t ho =>
    obtain ⟨n, rfl, hn⟩ := isOpaque_named ho
    exact ⟨.opaquePtr, .opaquePtr (!m) n, by simp [dartParamTy, hn], by simp [cTy, hn], by simp [sameWire, cAbiSimple, dAbiSimple]⟩
  | str _ lt e sd _ =>
    obtain ⟨c8, h8⟩ := inst_string
    obtain ⟨c16, h16⟩ := inst_string16
    refine ⟨_, .strView (isU16 e), by simp [dartParamTy]; rfl, by simp [cTy], ?_⟩
    have h1 : cAbi (.strView (isU16 e)) = some viewAbi := by cases hu : isU16 e <;> simp [cAbiSimple, h8, h16]
    rw [h1]; exact sameWire_view
  | optNamed _ n sd _ _ _ _ => simp [dartParamTy] at hd
  | optPrim _ p sd _ _ => simp [dartParamTy] at hd
  | optStrs _ e s sd _ => simp [dartParamTy] at hd
  | optStr _ lt e s sd _ _ => simp [dartParamTy] at hd
  | optSlice _ ltm p s sd _ _ => simp [dartParamTy] at hd
  | strs _ e sd => simp [dartParamTy] at hd
  | slice _ ltm p sd _ => simp [dartParamTy] at hd
  | callback ps r _ _ _ => simp [dartParamTy] at hd

/-- **Kotlin parameters** (modelled part: primitives other than the three recorded rows, enums, structs by
    value, opaque references, optional opaque references, all slices and strings, the write buffer). -/
theorem kt_param_agree_partial (env : Env) (sup : Support) (t : TyName)
    (h : InOk env sup false t) (h128 : has128 t = false)
    (hk : ∀ p, t = .prim p → ktMismatch p = false)
    (hm : ∃ d, ktParamTy env t = some d) :
    ∃ d c, ktParamTy env t = some d ∧ cTy env t = some c ∧ sameWire (cAbi c) (kAbiSimple d) = true := by
  obtain ⟨d, hd⟩ := hm
  cases h with
  | prim _ p =>
    obtain ⟨c, hc, ha⟩ := cPrim_some p (by simpa [has128] using h128)
    have hp := kt_prim_agree_partial p (by simpa [has128] using h128) (hk p rfl)
    cases hdp : ktPrim p with
    | none => simp [hdp] at hp
    | some f =>
      refine ⟨.prim f, .prim c, by simp [ktParamTy, hdp], by simp [cTy, hc], ?_⟩
      have hf : jnaAbi f = some (rustPrimAbi p) := by simpa [hdp] using hp
      simp [sameWire, cAbiSimple, kAbiSimple, ha, hf]
  | struct _ n fields hg hne =>
    exact ⟨.structTy n, .structTy n, by simp [ktParamTy, hg], by simp [cTy, hg], by simp [sameWire, cAbiSimple, kAbiSimple]⟩
  | enum _ n hg =>
    exact ⟨.enumTy, .enumTy n, by simp [ktParamTy, hg], by simp [cTy, hg], by simp [sameWire, cAbiSimple, kAbiSimple, normTok]⟩
  | refOpaque _ lt m t ho =>
    obtain ⟨n, rfl, hn⟩ := isOpaque_named ho
    exact ⟨.pointer, .opaquePtr (!m) n, by simp [ktParamTy, hn], by simp [cTy, hn], by simp [sameWire, cAbiSimple, kAbiSimple]⟩
  | optRefOpaque _ lt m t ho =>
    obtain ⟨n, rfl, hn⟩ := isOpaque_named ho
    exact ⟨.pointer, .opaquePtr (!m) n, by simp [ktParamTy, hn], by simp [cTy, hn], by simp [sameWire, cAbiSimple, kAbiSimple]⟩
  | str _ lt e sd _ =>
    obtain ⟨c8, h8⟩ := inst_string
    obtain ⟨c16, h16⟩ := inst_string16
    refine ⟨.slice, .strView (isU16 e), by simp [ktParamTy], by simp [cTy], ?_⟩
    have h1 : cAbi (.strView (isU16 e)) = some viewAbi := by cases hu : isU16 e <;> simp [cAbiSimple, h8, h16]
    rw [h1]; exact sameWire_view
  | strs _ e sd =>
    obtain ⟨c8, h8⟩ := inst_strings
    obtain ⟨c16, h16⟩ := inst_strings16
    refine ⟨.slice, .strsView (isU16 e), by simp [ktParamTy], by simp [cTy], ?_⟩
    have h1 : cAbi (.strsView (isU16 e)) = some viewAbi := by cases hu : isU16 e <;> simp [cAbiSimple, h8, h16]
    rw [h1]; exact sameWire_view
  | slice _ ltm p sd _ =>
    obtain ⟨dn, c, hdn, hc⟩ := derived_instance_some p (by simpa [has128] using h128)
    have h1 : cAbi (.primView dn (sliceMut ltm)) = some viewAbi := by simp [cAbiSimple, hc]
    exact ⟨.slice, .primView dn (sliceMut ltm), by simp [ktParamTy], by simp [cTy, hdn], by rw [h1]; exact sameWire_view⟩
  | optNamed _ n sd _ _ _ _ => simp [ktParamTy] at hd
  | optPrim _ p sd _ _ => simp [ktParamTy] at hd
  | optStrs _ e s sd _ => simp [ktParamTy] at hd
  | optStr _ lt e s sd _ _ => simp [ktParamTy] at hd
  | optSlice _ ltm p s sd _ _ => simp [ktParamTy] at hd
  | callback ps r _ _ _ => simp [ktParamTy] at hd

/-! ### Dart: the complete native signature -/

theorem dart_prim_some (p : Prim) (h : is128 p = false) :
    ∃ f, dartPrim p = some f ∧ dartFfiAbi f = some (rustPrimAbi p) := by
  have := dart_prim_agree p h
  cases hf : dartPrim p with
  | none => simp [hf] at this
  | some f => exact ⟨f, rfl, by simpa [hf] using this⟩

theorem sameWire_refl (a : Option Abi) : sameWire a a = true := by simp [sameWire]

/-- Dart's and C's types for one accepted position describe the same thing on the wire. Stated for *every* type
    for which both generators produce a type (no gate hypothesis needed): primitives, enums (a C enum read as a
    32-bit integer), structs by value, opaque pointers (optional or not, borrowed or owned), all slices and
    strings, and optionals of non-pointers as `{union{T}, bool}` records. -/
theorem dart_ty_agree (env : Env) (t : TyName) (c : CTy) (d : NTy) (h128 : has128 t = false)
    (hc : cTy env t = some c) (hd : dartTy env t = some d) :
    sameWire (cAbi c) (nAbi d) = true := by
  have hstr := inst_string; have hstr16 := inst_string16; have hstrs := inst_strings; have hstrs16 := inst_strings16
  obtain ⟨c8, h8⟩ := hstr; obtain ⟨c16, h16⟩ := hstr16; obtain ⟨cs8, hs8⟩ := hstrs; obtain ⟨cs16, hs16⟩ := hstrs16
  cases t with
  | prim p =>
    obtain ⟨cn, hcn, hca⟩ := cPrim_some p (by simpa [has128] using h128)
    obtain ⟨f, hf, hfa⟩ := dart_prim_some p (by simpa [has128] using h128)
    simp [cTy, hcn] at hc; simp [dartTy, hf] at hd; subst hc; subst hd
    simp [sameWire, cAbiSimple, nAbi, nAbiSimple, hca, hfa]
  | ordering =>
    obtain ⟨cn, hcn, hca⟩ := cPrim_some .i8 rfl
    obtain ⟨f, hf, hfa⟩ := dart_prim_some .i8 rfl
    simp [cTy, hcn] at hc; simp [dartTy, hf] at hd; subst hc; subst hd
    simp [sameWire, cAbiSimple, nAbi, nAbiSimple, hca, hfa]
  | named n =>
    cases hg : env.get n with
    | none => simp [cTy, hg] at hc
    | some k =>
      cases k <;> simp [cTy, hg] at hc <;> simp [dartTy, hg] at hd <;> subst hc <;> subst hd <;>
        simp [sameWire, cAbiSimple, nAbi, nAbiSimple, normTok]
  | ref lt m x =>
    cases x <;> simp [cTy] at hc
    rename_i n
    simp [dartTy] at hd
    obtain ⟨_, rfl⟩ := hc; obtain ⟨_, rfl⟩ := hd
    simp [sameWire, cAbiSimple, nAbi, nAbiSimple]
  | box x =>
    cases x <;> simp [cTy] at hc
    rename_i n
    simp [dartTy] at hd
    obtain ⟨_, rfl⟩ := hc; obtain ⟨_, rfl⟩ := hd
    simp [sameWire, cAbiSimple, nAbi, nAbiSimple]
  | strRef lt e sd =>
    simp [cTy] at hc; simp [dartTy, dartSliceName] at hd; subst hc; subst hd
    cases hu : isU16 e <;> simp [sameWire, cAbiSimple, nAbi, nAbiSimple, h8, h16]
  | strSlice e sd =>
    simp [cTy] at hc; simp [dartTy, dartSliceName] at hd; subst hc; subst hd
    cases hu : isU16 e <;> simp [sameWire, cAbiSimple, nAbi, nAbiSimple, hs8, hs16]
  | primSlice l p sd =>
    obtain ⟨dn, ci, hdn, hci⟩ := derived_instance_some p (by simpa [has128] using h128)
    simp [cTy, hdn] at hc; subst hc
    simp [dartTy, dartSliceName] at hd
    obtain ⟨nm, _, rfl⟩ := hd
    simp [sameWire, cAbiSimple, nAbi, nAbiSimple, hci]
  | opt x sd =>
    cases x with
    | prim p =>
      obtain ⟨dn, hdn, hda⟩ := derived_some p (by simpa [has128] using h128)
      obtain ⟨f, hf, hfa⟩ := dart_prim_some p (by simpa [has128] using h128)
      simp [cTy, hdn] at hc; simp [dartTy, hf] at hd; subst hc; subst hd
      simp [sameWire, cAbiSimple, nAbi, nArmAbi, nAbiSimple, hda, hfa]
    | named n =>
      cases hg : env.get n with
      | none => simp [cTy, hg] at hc
      | some k =>
        cases k <;> simp [cTy, hg] at hc <;> simp [dartTy, hg] at hd <;> subst hc <;> subst hd <;>
          simp [sameWire, cAbiSimple, nAbi, nArmAbi, nAbiSimple, normTok, mkResult, mkStruct, mkUnion]
    | ref lt m y =>
      cases y <;> simp [cTy] at hc
      simp [dartTy] at hd
      obtain ⟨_, rfl⟩ := hc; obtain ⟨_, rfl⟩ := hd
      simp [sameWire, cAbiSimple, nAbi, nAbiSimple]
    | box y =>
      cases y <;> simp [cTy] at hc
      simp [dartTy] at hd
      obtain ⟨_, rfl⟩ := hc; obtain ⟨_, rfl⟩ := hd
      simp [sameWire, cAbiSimple, nAbi, nAbiSimple]
    | strRef lt e s2 =>
      simp [cTy] at hc; simp [dartTy, dartSliceName] at hd; subst hc; subst hd
      cases hu : isU16 e <;> simp [sameWire, cAbiSimple, nAbi, nArmAbi, nAbiSimple, h8, h16]
    | strSlice e s2 =>
      simp [cTy] at hc; simp [dartTy, dartSliceName] at hd; subst hc; subst hd
      cases hu : isU16 e <;> simp [sameWire, cAbiSimple, nAbi, nArmAbi, nAbiSimple, hs8, hs16]
    | primSlice l p s2 =>
      obtain ⟨dn, ci, hdn, hci⟩ := derived_instance_some p (by simpa [has128] using h128)
      simp [cTy, hdn] at hc; subst hc
      simp [dartTy, dartSliceName] at hd
      obtain ⟨nm, _, rfl⟩ := hd
      simp [sameWire, cAbiSimple, nAbi, nArmAbi, nAbiSimple, hci]
    | _ => simp [cTy] at hc
  | _ => simp [cTy] at hc

/-! ### non-vacuity -/
example : (dartParamTy C01.envEx (.ref .anon false (.named "Op"))).isSome = true
    ∧ inErrs C01.envEx C01.supEx false (.ref .anon false (.named "Op")) = [] := by decide
example : (dartPrim .u16).bind dartFfiAbi = some [.int 16 false] ∧ (ktPrim .u16).bind jnaAbi = some [.int 16 false] := by decide

/-! ### Kotlin: the JNA declaration (`KtNative`, exact-text tie `kotlin-native-signature`) -/

open DiplomatModel.KtNative DiplomatModel.CppMethod in
/-- **Same parameter count and order as the C function.** With at most one `DiplomatWrite` parameter, the JNA
    declaration lists exactly as many parameters as the C prototype of C01's model: the receiver first, one per
    parameter in order, the write buffer last. -/
theorem kt_native_arity (env : Env) (pfx owner : String) (m : AMethod) (ks : List String) (ps : List (String × CTy))
    (hw : (m.params.filter fun p => match p.2 with | .write => true | _ => false).length ≤ 1)
    (hk : ktNativeParams env owner m = some ks) (hc : cParams env pfx owner m = some ps) :
    ks.length = ps.length := by
  unfold ktNativeParams at hk
  unfold cParams at hc
  cases hs : cSelf env owner m with
  | none => simp [hs] at hc
  | some sl =>
    cases hp : optMapM (cParam1 env (abiName pfx owner m.name)) m.params with
    | none => simp [hs, hp] at hc
    | some pl =>
      simp only [hs, hp, Option.some.injEq] at hc
      subst hc
      have h2 : pl.length = m.params.length := optMapM_length _ _ _ hp
      have hsplit := params_split m hw
      cases hself : m.self with
      | none =>
        have h3 : sl = [] := by unfold cSelf at hs; simp [hself] at hs; exact hs
        simp only [hself] at hk
        cases hconv : optMapM (fun p : String × TyName => (ktNativeTy env p.2).map fun t => p.1 ++ ": " ++ t) (cppParams m) with
        | none => simp [hconv] at hk
        | some conv =>
          simp only [hconv, Option.some.injEq] at hk
          subst hk
          have h1 : conv.length = (cppParams m).length := optMapM_length _ _ _ hconv
          simp only [List.length_append, h1, h2, h3, List.length_nil, List.nil_append, Nat.zero_add]
          split at hsplit <;> simp_all <;> omega
      | some s =>
        have h3 : sl.length = 1 := by
          unfold cSelf at hs
          simp only [hself, Option.map_eq_some_iff] at hs
          obtain ⟨c, _, rfl⟩ := hs; rfl
        simp only [hself] at hk
        cases hks : ktSelf env owner with
        | none => simp [hks] at hk
        | some a =>
          have ha : a.length = 1 := by
            unfold ktSelf at hks
            split at hks <;> simp at hks <;> subst hks <;> rfl
          cases hconv : optMapM (fun p : String × TyName => (ktNativeTy env p.2).map fun t => p.1 ++ ": " ++ t) (cppParams m) with
          | none => simp [hks, hconv] at hk
          | some conv =>
            simp only [hks, hconv, Option.some.injEq] at hk
            subst hk
            have h1 : conv.length = (cppParams m).length := optMapM_length _ _ _ hconv
            simp only [List.length_append, h1, h2, h3, ha]
            split at hsplit <;> simp_all <;> omega

open DiplomatModel.KtNative in
/-- a returned `bool` is declared `Byte` (one byte, as C's `bool`), every other returned primitive as in parameters -/
theorem kt_native_ret_prim (p : Prim) : ktPrimNative p = if p = .bool then some "Byte" else ktPrim p := by
  cases p <;> rfl

open DiplomatModel.KtNative in
example : ktNativeText C01.envEx "" "Op"
    ⟨"m", some ⟨true, .anon, false⟩, [("a", .prim .u16), ("o", .opt (.ref .anon false (.named "Op")) .std), ("w", .write)],
      some (.res .unit (.named "En") .std)⟩ = some "fun Op_m(handle: Pointer, a: FFIUint16, o: Pointer?, write: Pointer): ResultUnitInt" := by decide

end DiplomatModel.Props.C07
