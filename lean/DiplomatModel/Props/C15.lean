/-
  C15 — After successful lowering no backend crashes  (PARTIAL: see DESIGN.md).

  What is proved here:
  * the panic-capable constructs found in the source are exactly the reviewed baseline (regenerated table);
  * the recorded reachable sites are in that table (so repairing one forces the record to be updated);
  * invariants of accepted modules that the backends' `unwrap`/`unreachable!` arms rely on
    (corollaries of C05's gate theorems, for types of any depth);
  * modules free of the three recorded shapes are predicted panic-free by the catalogue.
  What only the run-time tie sees: unmarked panics, and whether each of the ~340 sites is unreachable.
-/
import DiplomatModel.Panics
import DiplomatModel.PanicBaseline
import DiplomatModel.Generated.PanicSites
import DiplomatModel.Props.C05
namespace DiplomatModel.Props.C15
open DiplomatModel.Lower DiplomatModel.Panics DiplomatModel.Props.C05

/-- the scan of /repo's current source equals the reviewed baseline -/
theorem sites_match_baseline :
    DiplomatModel.Generated.PanicSites.scanned = DiplomatModel.PanicBaseline.baseline := by rfl

/-- every recorded reachable site still exists in the source -/
theorem known_sites_exist :
    ∀ k ∈ DiplomatModel.PanicBaseline.knownReachable,
      (DiplomatModel.PanicBaseline.baseline.any fun s => s.1 == k.1 && s.2.1 == k.2.1 && s.2.2.1 == k.2.2.1) = true := by
  decide

/-! ### invariants of accepted modules (what `unwrap`/`unreachable!` arms in the backends assume) -/

/-- an accepted input type is never an owned opaque, a `Result`, a `DiplomatWrite`, unit or `Ordering` -/
theorem input_never_box_result_write (env : Env) (sup : Support) (is : Bool) (t : TyName)
    (h : inErrs env sup is t = []) :
    (∀ b, t ≠ .box b) ∧ (∀ a b s, t ≠ .res a b s) ∧ t ≠ .write ∧ t ≠ .unit ∧ t ≠ .ordering := by
  have hk := (in_gate_iff env sup is t).mp h
  refine ⟨?_, ?_, ?_, ?_, ?_⟩ <;> (intros; cases hk <;> simp)

/-- an accepted output type is never a callback, a slice of strings, an owned slice or a bare `Result` -/
theorem output_never_callback_strs_owned (env : Env) (sup : Support) (is iro : Bool) (t : TyName)
    (h : outErrs env sup is iro t = []) :
    (∀ ps r, t ≠ .fn ps r) ∧ (∀ e s, t ≠ .strSlice e s) ∧ (∀ e s, t ≠ .strRef none e s)
      ∧ (∀ p s, t ≠ .primSlice none p s) ∧ (∀ a b s, t ≠ .res a b s) := by
  have hk := (out_gate_iff env sup is iro t).mp h
  refine ⟨?_, ?_, ?_, ?_, ?_⟩ <;> (intros; cases hk <;> simp)

/-- a pointer in an accepted position always points to an opaque (never to a struct, enum or primitive) -/
theorem pointers_are_opaque (env : Env) (sup : Support) (is iro : Bool) (lt : Lt) (m : Bool) (t : TyName) :
    (inErrs env sup is (.ref lt m t) = [] → isOpaque env t = true)
    ∧ (outErrs env sup is iro (.ref lt m t) = [] → isOpaque env t = true)
    ∧ (outErrs env sup is iro (.box t) = [] → isOpaque env t = true) := by
  refine ⟨fun h => ?_, fun h => ?_, fun h => ?_⟩
  · cases (in_gate_iff env sup is _).mp h with | refOpaque _ _ _ _ ho => exact ho
  · cases (out_gate_iff env sup is iro _).mp h with | refOpaque _ _ _ _ _ ho => exact ho
  · cases (out_gate_iff env sup is iro _).mp h with | boxOpaque _ _ _ ho => exact ho

/-- the payload of an accepted `Option` in an input is a pointer to an opaque, a primitive, a struct/enum
    or a slice — nothing else (this is what the option helpers of js/dart/cpp enumerate) -/
theorem option_payload_kinds (env : Env) (sup : Support) (is : Bool) (t : TyName) (sd : Sd)
    (h : inErrs env sup is (.opt t sd) = []) :
    (∃ lt m r, t = .ref lt m r ∧ isOpaque env r = true) ∨ (∃ p, t = .prim p) ∨ (∃ n, t = .named n)
      ∨ (∃ e s, t = .strSlice e s) ∨ (∃ lt e s, t = .strRef lt e s) ∨ (∃ l p s, t = .primSlice l p s) := by
  cases (in_gate_iff env sup is _).mp h with
  | optRefOpaque _ lt m r ho => exact Or.inl ⟨lt, m, r, rfl, ho⟩
  | optNamed _ n _ _ _ _ _ => exact Or.inr (Or.inr (Or.inl ⟨n, rfl⟩))
  | optPrim _ p _ _ _ => exact Or.inr (Or.inl ⟨p, rfl⟩)
  | optStrs _ e s _ _ => exact Or.inr (Or.inr (Or.inr (Or.inl ⟨e, s, rfl⟩)))
  | optStr _ lt e s _ _ _ => exact Or.inr (Or.inr (Or.inr (Or.inr (Or.inl ⟨lt, e, s, rfl⟩))))
  | optSlice _ l p s _ _ _ => exact Or.inr (Or.inr (Or.inr (Or.inr (Or.inr ⟨l, p, s, rfl⟩))))

/-- **Catalogue, partial form.** A module none of whose methods has one of the three recorded shapes is
    predicted to reach no known panic site in any backend. -/
theorem no_known_panic_partial (backend : String) (ts : List TypeDecl)
    (hf : ∀ t ∈ ts, fieldClasses backend t.def_ = [])
    (h : ∀ t ∈ ts, ∀ m ∈ t.methods, methodClasses backend t.def_ m = []) : predict backend ts = [] := by
  unfold predict
  simp only [List.flatMap_eq_nil_iff, List.append_eq_nil_iff]
  intro t ht
  exact ⟨hf t ht, h t ht⟩

/-- the recorded shapes really are predicted (negation witnesses, replayed against the tool by the check) -/
example : predict "js" [⟨"Op", .opaqueTy, [⟨"m", some ⟨"Op", true⟩, [], some (.res (.prim .u8) (.prim .i8) .std)⟩]⟩]
    = [.jsNonCustomResultError] := by decide
example : predict "kotlin" [⟨"Op", .opaqueTy, [⟨"m", some ⟨"Op", true⟩, [("f", .fn [.prim .u8] .unit)], none⟩]⟩]
    = [.kotlinCallbackWithSelf] := by decide
example : predict "dart" [⟨"Op", .opaqueTy, [⟨"m", none, [("p", .primSlice (some (.anon, false)) .byte .std)], none⟩]⟩]
    = [.dartByteSlice] := by decide

end DiplomatModel.Props.C15
