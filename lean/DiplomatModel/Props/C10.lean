/-
  C10 — Option and Result use one consistent wire encoding everywhere.

  Type level (over the ABI model of `AbiGen`, shared with C01): an optional opaque reference / box is a bare
  pointer; every other accepted `Option<T>` is `{payload, is_ok}` and is the same description as
  `DiplomatResult<T, ()>`; unit and zero-sized arms occupy no payload; the C backend's type never depends on
  the spelling (std vs Diplomat), hence both spellings have identical C declarations, and — through C01's
  agreement theorems — identical Rust-side wire descriptions.

  Value level: the conversions the macro inserts (`.into()`, `.ok_or(()).into()`, `Option::from`) between the
  user-facing value and the wire value `{payload, is_ok}` are modelled as total functions; `is_ok` is true
  exactly for `Some` / `Ok`, the payload is the one given, and going through either spelling is the identity.
-/
import DiplomatModel.Props.C01
import DiplomatModel.Lemmas.JsSlot
namespace DiplomatModel.Props.C10
open DiplomatModel.Lower DiplomatModel.AbiGen DiplomatModel.Props.C05 DiplomatModel.Props.C01

/-! ### type level -/

/-- An accepted optional opaque reference is a bare (nullable) pointer in parameter position, on both sides. -/
theorem optional_pointer_is_pointer (env : Env) (lt : Lt) (m : Bool) (n : String)
    (h : isOpaqueName env n = true) :
    rAbi env (paramTy (.opt (.ref lt m (.named n)) .std)) = some [.ptr]
    ∧ (cTy env (.opt (.ref lt m (.named n)) .std)).bind cAbi = some [.ptr] := by
  simp [paramTy, isFfiSafe, toSyn, rAbi, isPtrTo, cTy, h, cAbiSimple]

/-- … and in return position, for references and boxes alike. -/
theorem optional_pointer_return (env : Env) (abi : String) (lt : Lt) (m : Bool) (n : String)
    (h : isOpaqueName env n = true) :
    rAbi env (retTy (some (.opt (.ref lt m (.named n)) .std))) = some [.ptr]
    ∧ (cRetTy env abi (some (.opt (.ref lt m (.named n)) .std))).bind cAbi = some [.ptr]
    ∧ rAbi env (retTy (some (.opt (.box (.named n)) .std))) = some [.ptr]
    ∧ (cRetTy env abi (some (.opt (.box (.named n)) .std))).bind cAbi = some [.ptr] := by
  simp [retTy, toSyn, rAbi, isPtrTo, cRetTy, cTy, h, cAbiSimple]

/-- `DiplomatOption<T>` is `DiplomatResult<T, ()>`: the same wire description for every payload. -/
theorem option_is_result (env : Env) (t : RTy) :
    rAbi env (.dipOption t) = rAbi env (.dipResult t .unit) := by
  cases h : rAbi env t <;> simp [rAbi, h]

/-- A unit arm occupies no payload: `Result<(), ()>` / `Option<()>` is the bare flag, `Result<T, ()>` has
    exactly `T` in its union — on the Rust side and on the C side. -/
theorem unit_arm_no_payload (env : Env) (abi : String) :
    rAbi env (.dipResult .unit .unit) = some (mkResult [])
    ∧ (∀ t a, rAbi env t = some a → rAbi env (.dipResult t .unit) = some (mkResult (rArm a))
              ∧ rAbi env (.dipResult .unit t) = some (mkResult (rArm a)))
    ∧ cArm env .unit = some none
    ∧ cAbi (.result abi none none) = some (mkResult []) := by
  refine ⟨by simp [rAbi], ?_, by simp [cArm, isUnit], by rw [cAbi_result cArmAbi_none cArmAbi_none]; rfl⟩
  intro t a h
  simp [rAbi, h]

/-- a non-pointer `Option<T>` parameter is written `DiplomatOption<T'>` by the macro, whatever the spelling -/
theorem option_param_is_dipOption (t : TyName) (sd : Sd)
    (hb : ∀ b, t ≠ .box b) (hr : ∀ lt m b, t ≠ .ref lt m b) :
    ∃ x, paramTy (.opt t sd) = .dipOption x := by
  cases sd
  · refine ⟨toSyn (ffiSafeVersion t), ?_⟩
    cases t <;> simp_all [paramTy, isFfiSafe, ffiSafeVersion, toSyn]
  · refine ⟨toSyn t, ?_⟩
    cases t <;> simp_all [paramTy, isFfiSafe, toSyn]

/-! #### spellings -/

/-- every spelling set to the Diplomat one -/
def normSpelling : TyName → TyName
  | .opt t _ => .opt (normSpelling t) .dip
  | .res a b _ => .res (normSpelling a) (normSpelling b) .dip
  | .strRef lt e _ => .strRef lt e .dip
  | .primSlice ltm p _ => .primSlice ltm p .dip
  | .strSlice e _ => .strSlice e .dip
  | .ref lt m t => .ref lt m (normSpelling t)
  | .box t => .box (normSpelling t)
  | t => t

theorem cTy_spelling (env : Env) (t : TyName) : cTy env t = cTy env (normSpelling t) := by
  cases t with
  | opt t sd =>
    cases t <;> simp [normSpelling, cTy]
    all_goals (rename_i a; try (cases a <;> simp [normSpelling, cTy]))
  | ref lt m t => cases t <;> simp [normSpelling, cTy]
  | box t => cases t <;> simp [normSpelling, cTy]
  | _ => simp [normSpelling, cTy]

theorem isZst_spelling (env : Env) (t : TyName) : isZst env t = isZst env (normSpelling t) := by
  cases t <;> simp [normSpelling, isZst]

theorem isUnit_spelling (t : TyName) : isUnit t = isUnit (normSpelling t) := by
  cases t <;> simp [normSpelling, isUnit]

theorem cArm_spelling (env : Env) (t : TyName) : cArm env t = cArm env (normSpelling t) := by
  simp [cArm, ← isZst_spelling, ← isUnit_spelling, ← cTy_spelling]

/-- **Identical C declarations.** Two parameter / field / return types that differ only in spelling
    (`Option` vs `DiplomatOption`, `Result` vs `DiplomatResult`, `&str` vs `DiplomatUtf8StrSlice`, `&[T]`
    vs `DiplomatSlice<T>`, …) get the same C type — the backend never looks at the spelling. -/
theorem spellings_identical (env : Env) (t t' : TyName) (h : normSpelling t = normSpelling t') :
    cTy env t = cTy env t' := by
  rw [cTy_spelling env t, cTy_spelling env t', h]

theorem spellings_identical_ret (env : Env) (abi : String) (t t' : TyName) (h : normSpelling t = normSpelling t') :
    cRetTy env abi (some t) = cRetTy env abi (some t') := by
  have key : ∀ x, cRetTy env abi (some x) = cRetTy env abi (some (normSpelling x)) := by
    intro x
    cases x with
    | res a b sd => simp [normSpelling, cRetTy, ← cArm_spelling]
    | opt v sd =>
      cases v with
      | box b => simp only [cRetTy]; exact cTy_spelling env _
      | ref lt m b => simp only [cRetTy]; exact cTy_spelling env _
      | _ =>
        simp only [normSpelling, cRetTy] <;> first | rfl | (rw [cArm_spelling env _] <;> rfl)
    | unit => rfl
    | _ => simp only [cRetTy]; first | exact cTy_spelling env _ | rfl
  rw [key t, key t', h]

/-- **Identical Rust-side encoding.** If both spellings of a parameter type are accepted, the macro's two
    Rust types have the same wire description (both equal the one C type's). -/
theorem spellings_same_wire (env : Env) (sup : Support) (t t' : TyName)
    (h : normSpelling t = normSpelling t')
    (ht : InOk env sup false t) (ht' : InOk env sup false t')
    (h128 : has128 t = false) (h128' : has128 t' = false)
    (hf : dipOptOfStdSlice t = false) (hf' : dipOptOfStdSlice t' = false)
    (hfn : ∀ ps r, t ≠ .fn ps r) (hfn' : ∀ ps r, t' ≠ .fn ps r) :
    rAbi env (paramTy t) = rAbi env (paramTy t') := by
  obtain ⟨c, hc, ha, _⟩ := param_agree_partial env sup t ht h128 hf hfn
  obtain ⟨c', hc', ha', _⟩ := param_agree_partial env sup t' ht' h128' hf' hfn'
  have : c = c' := by
    have := spellings_identical env t t' h
    rw [hc, hc'] at this
    exact Option.some.inj this
  rw [ha, ha', this]

/-- The gate treats the two spellings of a non-pointer option alike in parameter and return positions (the
    documented asymmetries — std `Option` in struct fields, `DiplomatOption<&T>` — are the only ones). -/
theorem option_spelling_gate (env : Env) (sup : Support) (t : TyName)
    (hb : ∀ b, t ≠ .box b) (hr : ∀ lt m b, t ≠ .ref lt m b) :
    inErrs env sup false (.opt t .std) = inErrs env sup false (.opt t .dip)
    ∧ outErrs env sup false true (.opt t .std) = outErrs env sup false true (.opt t .dip) := by
  cases t <;> simp_all [inErrs, outErrs]

/-! ### value level: what the inserted conversions do -/

/-- `DiplomatResult<T, E>` as a value: the flag and the live payload -/
inductive Wire (α β : Type) where
  | mk (isOk : Bool) (ok : Option α) (err : Option β)
  deriving Repr, DecidableEq

def Wire.isOk {α β} : Wire α β → Bool | .mk b _ _ => b

/-- `impl From<Result<T, E>> for DiplomatResult<T, E>` -/
def fromResult {α β} : Except β α → Wire α β
  | .ok v => .mk true (some v) none
  | .error e => .mk false none (some e)

/-- `impl From<DiplomatResult<T, E>> for Result<T, E>` (on well-formed wire values) -/
def intoResult {α β} : Wire α β → Option (Except β α)
  | .mk true (some v) _ => some (.ok v)
  | .mk false _ (some e) => some (.error e)
  | _ => none

/-- `option.ok_or(()).into()` — `impl From<Option<T>> for DiplomatOption<T>` -/
def fromOption {α} : Option α → Wire α Unit
  | some v => fromResult (.ok v)
  | none => fromResult (.error ())

/-- `Result::<T, ()>::from(result).ok()` — `impl From<DiplomatOption<T>> for Option<T>` -/
def intoOption {α} (w : Wire α Unit) : Option (Option α) :=
  (intoResult w).map fun r => match r with | .ok v => some v | .error _ => none

/-- `is_ok` is true exactly for `Ok`, and the payload that crosses is the one given. -/
theorem result_encoding {α β} (r : Except β α) :
    ((fromResult r).isOk = true ↔ ∃ v, r = .ok v) ∧ intoResult (fromResult r) = some r := by
  cases r <;> simp [fromResult, Wire.isOk, intoResult]

/-- `is_ok` is true exactly for `Some`; converting back gives the same option. -/
theorem option_encoding {α} (o : Option α) :
    ((fromOption o).isOk = true ↔ o.isSome = true) ∧ intoOption (fromOption o) = some o := by
  cases o <;> simp [fromOption, fromResult, Wire.isOk, intoOption, intoResult]

/-- **Identical behaviour of the two spellings.** A std-spelled `Option<T>` parameter is converted with
    `into()` before the method sees it and a std-spelled return is converted with `ok_or(()).into()` after;
    a Diplomat-spelled one is passed through.  For one abstract value both routes put the same value on the
    wire, and read the same value off it. -/
theorem spellings_same_behaviour {α} (o : Option α) (w : Wire α Unit) (hw : w = fromOption o) :
    -- return: the std-spelled method returns `o`, the Diplomat-spelled one returns the wire value of `o`
    fromOption o = w
    -- parameter: the std-spelled method receives `into()` of the wire value, which is `o` again
    ∧ intoOption w = some o := by
  subst hw
  exact ⟨rfl, (option_encoding o).2⟩

/-! ### non-vacuity -/

example : normSpelling (.opt (.strRef (some .anon) .utf8 .std) .std) = normSpelling (.opt (.strRef (some .anon) .utf8 .dip) .dip) := rfl
example : (cTy C01.envEx (.opt (.prim .u8) .std)).bind cAbi = some (mkResult [[.int 8 false]]) ∧ (cTy C01.envEx (.opt (.prim .u8) .dip)).bind cAbi = some (mkResult [[.int 8 false]]) := by decide
example : rAbi C01.envEx (paramTy (.opt (.prim .u8) .std)) = rAbi C01.envEx (paramTy (.opt (.prim .u8) .dip)) := by decide
example : intoOption (fromOption (some 5)) = some (some 5) ∧ (fromOption (none : Option Nat)).isOk = false := by decide

/-! ### bytes (the codec of `Wire.lean`, layout tied to gcc / rustc by C01's `wire-layout` rows) -/

open DiplomatModel.Wire in
/-- **One encoding, whatever the spelling**: the wire type of an optional parameter, field or return value does not
    depend on whether it was written `Option<T>` or `DiplomatOption<T>`; for non-pointer payloads it is the
    `{payload, is_ok}` record of `Result<T, ()>`, for opaque references and boxes a bare pointer. -/
theorem option_wire_spelling_invariant (env : Env) (fuel : Nat) (t : TyName) :
    wireOf env fuel (.opt t .std) = wireOf env fuel (.opt t .dip) := by
  cases fuel <;> simp [wireOf]

open DiplomatModel.Wire in
theorem option_wire_is_result (env : Env) (fuel : Nat) (t : TyName) (w : WTy)
    (hb : ∀ b, t ≠ .box b) (hr : ∀ lt m b, t ≠ .ref lt m b) (h : wireOf env fuel t = some w) (sd : Sd) :
    wireOf env (fuel + 1) (.opt t sd) = some (.result w .unit) := by
  cases t <;> simp [wireOf, h] <;> first | exact absurd rfl (hb _) | exact absurd rfl (hr _ _ _)

open DiplomatModel.Wire in
/-- **`is_ok` is true exactly for Some/Ok, and the payload is the one stored**: storing `Ok(v)` and loading gives
    `Ok(v)`, storing `Err(e)` gives `Err(e)` — for every payload type, any memory, any address. -/
theorem result_bytes_roundtrip (ok err : WTy) (hwf : (WTy.result ok err).WF) (base : Nat) (m : Memory.Mem) (v : WVal) :
    (WellTyped ok v → decode (.result ok err) base (encode (.result ok err) (.ok v) base m) = .ok v)
    ∧ (WellTyped err v → decode (.result ok err) base (encode (.result ok err) (.err v) base m) = .err v) :=
  C01.result_arm_roundtrip ok err v base m hwf

open DiplomatModel.Wire in
/-- **Unit arms occupy no payload**: `Result<(), ()>` / `Option<()>` is the flag byte alone, and a unit arm next to
    a payload arm adds nothing to the record. -/
theorem unit_arms_take_no_bytes (w : WTy) (hwf : w.WF) :
    size (.result .unit .unit) = 1 ∧ flagOffset .unit .unit = 0
    ∧ flagOffset w .unit = flagOffset w w ∧ size (.result w .unit) = size (.result w w) := by
  have hp : 1 ≤ (sizeAlign w).2 := align_pos w hwf
  have hm : max (sizeAlign w).2 1 = (sizeAlign w).2 := Nat.max_eq_left hp
  refine ⟨by decide, by decide, ?_, ?_⟩
  · simp [flagOffset, size, align, sizeAlign, hm]
  · simp [size, sizeAlign, hm]

open DiplomatModel.Wire DiplomatModel.JsSlot in
/-- **JS reads `is_ok` where Rust writes it** (result with an error payload): whatever the success value is — a
    value in the slot, nothing, or a string that goes through the write buffer — the byte the generated JS reads
    the flag from is the flag offset of the `DiplomatResult` Rust returns, the slot reaches exactly to that byte,
    and it is allocated with the record's alignment. -/
theorem js_result_slot_is_wire_result (ok : Succ) (e : WTy) (hok : (rustOk ok).WF) (he : e.WF) :
    flagByte ok (some e) = flagOffset (rustOk ok) e
    ∧ (resultSlot ok (some e)).1 = flagOffset (rustOk ok) e + 1
    ∧ (resultSlot ok (some e)).2 = align (.result (rustOk ok) e) := by
  have hea : 0 < (sizeAlign e).2 := align_pos e he
  have hoa : 0 < (sizeAlign (rustOk ok)).2 := align_pos _ hok
  cases ok with
  | unit =>
    have hm : 0 < max 1 (sizeAlign e).2 := by omega
    simp only [flagByte, resultSlot, okBeside, okLayout, rustOk, flagOffset, size, align, sizeAlign, divCeil_mul _ _ hm]
    simp
  | out t =>
    simp only [rustOk] at hoa
    have hm : 0 < max (sizeAlign t).2 (sizeAlign e).2 := by omega
    simp only [flagByte, resultSlot, okBeside, okLayout, rustOk, flagOffset, size, align, sizeAlign, divCeil_mul _ _ hm]
    simp
  | write =>
    have hm : 0 < max (sizeAlign e).2 (sizeAlign e).2 := by omega
    simp only [flagByte, resultSlot, okBeside, okLayout, rustOk, flagOffset, size, align, sizeAlign, divCeil_mul _ _ hm]
    have h1 : max 1 (sizeAlign e).2 = (sizeAlign e).2 := Nat.max_eq_right hea
    simp [h1]

open DiplomatModel.Wire DiplomatModel.JsSlot in
/-- … and without an error payload (`Option<T>`, `Result<T, ()>` with a value `T` in the slot): the flag sits
    directly behind the value. -/
theorem js_option_slot_is_wire_result (t : WTy) (ht : t.WF) :
    flagByte (.out t) none = flagOffset t .unit
    ∧ (resultSlot (.out t) none).2 = align (.result t .unit) := by
  have hta : 0 < (sizeAlign t).2 := align_pos t ht
  have hmod : (sizeAlign t).1 % (sizeAlign t).2 = 0 := size_mod_align t ht
  have h1 : max (sizeAlign t).2 1 = (sizeAlign t).2 := Nat.max_eq_left hta
  simp only [flagByte, resultSlot, okLayout, flagOffset, size, align, sizeAlign, h1]
  simp [roundUp_of_mod_zero _ _ hmod]

open DiplomatModel.Wire DiplomatModel.JsSlot in
/-- the two shapes the rule used to get wrong (finding F41): a unit success beside a one-byte error, and an error
    more aligned than a larger success whose size is not a multiple of that alignment -/
example : resultSlot .unit (some (.struct [.scalar 1])) = (2, 1)
    ∧ resultSlot (.out (.struct [.scalar 1, .scalar 1, .scalar 1, .scalar 1, .scalar 1])) (some (.struct [.scalar 4])) = (9, 4) := by
  decide

end DiplomatModel.Props.C10
