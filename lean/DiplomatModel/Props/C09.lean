/-
  C09 — whatever the tool accepts builds (PARTIAL: names and include paths are modelled; the rest of the
  claim — that every header, module and macro expansion is well-formed — is decided by the real compilers
  in the harness, see DESIGN.md).

  Proved here:
  * an identifier that went through `fmt_identifier` is never a keyword of the target language, for the
    keyword tables regenerated from the current source (C, C++, JS);
  * those tables contain every keyword of C11 (ISO/IEC 9899:2011 §6.4.1), of C++20 ([lex.key], with the
    alternative tokens) and every reserved word of ECMAScript modules (ES2015 §11.6.2, strict mode), typed
    in below from the standards — so "not in the table" really means "not a keyword";
  * escaping is injective on names that are not themselves `keyword_`;
  * the relative include path computed by `path_diff` resolves, from the including header's directory, to
    exactly the target header — for namespaces nested to any depth.
-/
import DiplomatModel.Lemmas.Idents
namespace DiplomatModel.Props.C09
open DiplomatModel.Idents DiplomatModel.Generated

/-- the tables are closed the right way: appending `_` to a keyword never yields another keyword -/
def Closed (kws : List String) : Bool := kws.all fun k => !kws.contains (k ++ "_")

theorem tables_closed : Closed (table .c) = true ∧ Closed (table .cpp) = true ∧ Closed (table .js) = true := by
  decide +kernel

theorem escaped_not_keyword_of_closed (kws : List String) (h : Closed kws = true) (name : String) :
    kws.contains (fmtIdentifier kws name) = false := by
  unfold fmtIdentifier
  by_cases hk : kws.contains name = true
  · simp only [hk, if_true]
    unfold Closed at h
    rw [List.all_eq_true] at h
    have hm : name ∈ kws := by simpa using hk
    have := h name hm
    simpa using this
  · simp only [hk, Bool.false_eq_true, if_false]

/-- **No generated identifier is a keyword** of its target language (parameters, fields, methods). -/
theorem escaped_never_keyword (l : Lang) (name : String) :
    (table l).contains (fmtIdentifier (table l) name) = false := by
  apply escaped_not_keyword_of_closed
  cases l
  · exact tables_closed.1
  · exact tables_closed.2.1
  · exact tables_closed.2.2

/-! the standards' lists -/

def c11Keywords : List String :=
  ["auto", "break", "case", "char", "const", "continue", "default", "do", "double", "else", "enum", "extern",
   "float", "for", "goto", "if", "inline", "int", "long", "register", "restrict", "return", "short", "signed",
   "sizeof", "static", "struct", "switch", "typedef", "union", "unsigned", "void", "volatile", "while",
   "_Alignas", "_Alignof", "_Atomic", "_Bool", "_Complex", "_Generic", "_Imaginary", "_Noreturn",
   "_Static_assert", "_Thread_local"]

def cpp20Keywords : List String :=
  ["alignas", "alignof", "asm", "auto", "bool", "break", "case", "catch", "char", "char8_t", "char16_t",
   "char32_t", "class", "concept", "const", "consteval", "constexpr", "constinit", "const_cast", "continue",
   "co_await", "co_return", "co_yield", "decltype", "default", "delete", "do", "double", "dynamic_cast", "else",
   "enum", "explicit", "export", "extern", "false", "float", "for", "friend", "goto", "if", "inline", "int",
   "long", "mutable", "namespace", "new", "noexcept", "nullptr", "operator", "private", "protected", "public",
   "register", "reinterpret_cast", "requires", "return", "short", "signed", "sizeof", "static", "static_assert",
   "static_cast", "struct", "switch", "template", "this", "thread_local", "throw", "true", "try", "typedef",
   "typeid", "typename", "union", "unsigned", "using", "virtual", "void", "volatile", "wchar_t", "while",
   "and", "and_eq", "bitand", "bitor", "compl", "not", "not_eq", "or", "or_eq", "xor", "xor_eq"]

/-- reserved words of ES module code: keywords, future reserved words, strict-mode reserved words, literals,
    and the two names that may not be bound in strict mode -/
def esModuleReserved : List String :=
  ["break", "case", "catch", "class", "const", "continue", "debugger", "default", "delete", "do", "else",
   "export", "extends", "finally", "for", "function", "if", "import", "in", "instanceof", "new", "return",
   "super", "switch", "this", "throw", "try", "typeof", "var", "void", "while", "with", "yield",
   "enum", "await",
   "implements", "interface", "let", "package", "private", "protected", "public", "static",
   "null", "true", "false",
   "arguments", "eval"]

/-- **The tables cover the standards.** -/
theorem tables_cover_standards :
    (c11Keywords.all fun k => (table .c).contains k) = true ∧
    (cpp20Keywords.all fun k => (table .cpp).contains k) = true ∧
    (c11Keywords.all fun k => (table .cpp).contains k) = true ∧
    (esModuleReserved.all fun k => (table .js).contains k) = true := by
  decide +kernel

/-- escaping keeps distinct names distinct, unless one of them already is `keyword_` -/
theorem escape_injective_partial (kws : List String) (a b : String)
    (ha : ∀ k ∈ kws, a ≠ k ++ "_") (hb : ∀ k ∈ kws, b ≠ k ++ "_")
    (h : fmtIdentifier kws a = fmtIdentifier kws b) : a = b := by
  unfold fmtIdentifier at h
  by_cases hka : kws.contains a = true <;> by_cases hkb : kws.contains b = true
  · simp only [hka, hkb, if_true] at h
    have := congrArg String.toList h
    simp only [String.toList_append] at this
    exact String.ext (List.append_cancel_right this)
  · simp only [hka, hkb, if_true, Bool.false_eq_true, if_false] at h
    exact absurd h.symm (hb a (by simpa using hka))
  · simp only [hka, hkb, if_true, Bool.false_eq_true, if_false] at h
    exact absurd h (ha b (by simpa using hkb))
  · have hka' : a ∉ kws := by simpa using hka
    have hkb' : b ∉ kws := by simpa using hkb
    simpa [hka', hkb'] using h

/-- **Relative includes resolve.** From a header in directory `bd`, the path `path_diff` computes for the
    header `file` in directory `pd` leads exactly there — whatever the nesting of the two namespaces. -/
theorem include_path_resolves (bd pd : List String) (file : String)
    (hpd : ∀ s ∈ pd, s ≠ "..") (hf : file ≠ "..") :
    resolve bd (pathDiff bd pd file) = pd ++ [file] := by
  obtain ⟨c, h1, h2⟩ := stripCommon_spec bd pd
  unfold pathDiff
  generalize stripCommon bd pd = sp at h1 h2 ⊢
  obtain ⟨b, p⟩ := sp
  simp only at h1 h2 ⊢
  subst h1
  rw [List.append_assoc, resolve_ups, resolve_plain]
  · rw [h2]; simp
  · intro s hs
    rcases List.mem_append.mp hs with h | h
    · exact hpd s (h2 ▸ List.mem_append_right c h)
    · simp only [List.mem_singleton] at h; exact h ▸ hf

/-! non-vacuity -/
example : fmtIdentifier (table .c) "int" = "int_" ∧ fmtIdentifier (table .c) "class" = "class"
    ∧ fmtIdentifier (table .cpp) "class" = "class_" ∧ fmtIdentifier (table .js) "interface" = "interface_" := by decide
example : pathDiff ["a", "b", "c"] ["a", "b", "z", "c"] "d.hpp" = ["..", "z", "c", "d.hpp"] := by decide
example : resolve ["a", "b", "c"] (pathDiff ["a", "b", "c"] ["a", "b", "z", "c"] "d.hpp") = ["a", "b", "z", "c", "d.hpp"] := by decide

end DiplomatModel.Props.C09
