/-
  C08 — JS bindings read and write structs with the real wasm32 repr(C) layout (PARTIAL: layout part).

  Proved here for field lists of any length and any positive alignments: the offsets, size and alignment
  computed by `struct_field_info` are *the* repr(C) layout (aligned, ordered, non-overlapping, minimal
  gaps; size = least multiple of the maximal alignment covering the last field).  The byte-level
  write/read round trip and the flattened wasm argument list are tied textually and by the rustc
  oracle only (see DESIGN.md).
-/
import DiplomatModel.Lemmas.JsLayout
import DiplomatModel.Lemmas.Memory
import DiplomatModel.Lemmas.Slots
namespace DiplomatModel.Props.C08
open DiplomatModel.JsLayout DiplomatModel.Memory

/-- offsets of the fields of a non-empty struct are the plain running-offset recursion -/
theorem offsets_eq (fs : List (Nat × Nat × SC)) (hne : fs ≠ []) :
    (fieldInfoOf fs).fields.map (·.offset) = offsetsFrom 0 fs := by
  unfold fieldInfoOf
  have he : fs.isEmpty = false := by cases fs <;> simp at hne ⊢
  simp only [he, Bool.false_eq_true, if_false]
  obtain ⟨h1, _, _⟩ := foldl_step fs ⟨0, 0, 1, [], .zst⟩
  split
  · rw [setLastPadding_offsets, h1]; simp
  · rw [h1]; simp

/-- **Field placement is repr(C).** Each offset is a multiple of its field's alignment, fields keep their
    order without overlapping, and every gap is smaller than the alignment that caused it. -/
theorem layout_is_reprC (fs : List (Nat × Nat × SC)) (hne : fs ≠ []) (hpos : ∀ f ∈ fs, 0 < f.2.1) :
    Good fs ((fieldInfoOf fs).fields.map (·.offset)) 0 := by
  rw [offsets_eq fs hne]
  exact offsetsFrom_good fs hpos 0

/-- **Struct alignment** is the largest field alignment … -/
theorem align_is_max (fs : List (Nat × Nat × SC)) (hne : fs ≠ []) (hpos : ∀ f ∈ fs, 0 < f.2.1) :
    (∀ f ∈ fs, f.2.1 ≤ (fieldInfoOf fs).align) ∧ (∃ f ∈ fs, (fieldInfoOf fs).align = f.2.1) := by
  unfold fieldInfoOf
  have he : fs.isEmpty = false := by cases fs <;> simp at hne ⊢
  simp only [he, Bool.false_eq_true, if_false]
  obtain ⟨_, _, h3⟩ := foldl_step fs ⟨0, 0, 1, [], .zst⟩
  simp only at h3 ⊢
  rw [h3]
  refine ⟨(maxAlignFrom_ge fs 0).2, ?_⟩
  rcases maxAlignFrom_mem fs 0 with h | ⟨g, hg, h⟩
  · cases fs with
    | nil => exact absurd rfl hne
    | cons f r =>
      have h1 := (maxAlignFrom_ge (f :: r) 0).2 f (by simp)
      have h2 := hpos f (by simp)
      omega
  · exact ⟨g, hg, h⟩

theorem align_val (fs : List (Nat × Nat × SC)) (hne : fs ≠ []) :
    (fieldInfoOf fs).align = maxAlignFrom 0 fs := by
  unfold fieldInfoOf
  have he : fs.isEmpty = false := by cases fs <;> simp at hne ⊢
  simp only [he, Bool.false_eq_true, if_false]
  exact (foldl_step fs ⟨0, 0, 1, [], .zst⟩).2.2

theorem size_val (fs : List (Nat × Nat × SC)) (hne : fs ≠ []) :
    (fieldInfoOf fs).size =
      endFrom 0 fs + (if endFrom 0 fs % maxAlignFrom 0 fs != 0 then padTo (endFrom 0 fs) (maxAlignFrom 0 fs) else 0) := by
  unfold fieldInfoOf
  have he : fs.isEmpty = false := by cases fs <;> simp at hne ⊢
  simp only [he, Bool.false_eq_true, if_false]
  obtain ⟨_, h2, h3⟩ := foldl_step fs ⟨0, 0, 1, [], .zst⟩
  simp only at h2 h3
  rw [h2, h3]

/-- … and **struct size** is the least multiple of that alignment that covers the last field. -/
theorem size_is_rounded_end (fs : List (Nat × Nat × SC)) (hne : fs ≠ []) (hpos : ∀ f ∈ fs, 0 < f.2.1) :
    (fieldInfoOf fs).size % (fieldInfoOf fs).align = 0 ∧ endFrom 0 fs ≤ (fieldInfoOf fs).size
      ∧ (fieldInfoOf fs).size - endFrom 0 fs < (fieldInfoOf fs).align := by
  have halign : 0 < maxAlignFrom 0 fs := by
    cases fs with
    | nil => exact absurd rfl hne
    | cons f r =>
      have h1 := (maxAlignFrom_ge (f :: r) 0).2 f (by simp)
      have h2 := hpos f (by simp)
      omega
  rw [size_val fs hne, align_val fs hne]
  generalize endFrom 0 fs = e
  generalize maxAlignFrom 0 fs = a at halign ⊢
  have hp := pad_spec e a halign
  by_cases hz : e % a = 0
  · simp [hz]; omega
  · simp only [bne_iff_ne, ne_eq, hz, not_false_eq_true, if_true]
    exact ⟨hp.1, by omega, by omega⟩

/-- an empty struct is given the size and alignment of a pointer (what the code calls `unit_size_alignment`) -/
theorem empty_struct : (fieldInfoOf []).size = 4 ∧ (fieldInfoOf []).align = 4 ∧ (fieldInfoOf []).fields = [] := by
  decide

/-- `DiplomatOption<T>` occupies `size T + align T` bytes at `T`'s alignment and is never passed as scalars -/
theorem option_layout (t : LTy) (size align : Nat) (sc : SC) (h : layoutOf t = some (size, align, sc)) (hz : sc ≠ .zst) :
    layoutOf (.opt t) = some (size + align, align, .memory) := by
  simp [layoutOf, h, hz]

/-! non-vacuity: `struct { a: u8, b: u64, c: In{u8,u16}, d: DiplomatOption<u16>, e: &Op, f: &str, g: Enum, h: bool }` -/
example : (structFieldInfo [.scalar 1 1, .scalar 8 8, .struct [.scalar 1 1, .scalar 2 2], .opt (.scalar 2 2),
    .scalar 4 4, .slice, .scalar 4 4, .scalar 1 1]).map (fun i => (i.fields.map (·.offset), i.size, i.align))
    = some ([0, 8, 16, 20, 24, 28, 36, 40], 48, 8) := by decide

/-! ### the generated read / write / flatten code (tool/src/js/gen.rs, converter.rs) -/

/-- **Where the generated JS looks for an option's flag.** `readOption(wasm, ptr, N, …)` reads the flag byte at
    `ptr + N`, and the generator passes `N = size of the payload`.  In the `#[repr(C)]` layout of
    `DiplomatOption<T>` = `{ union { T }, bool }` the flag's offset is exactly that size (for any payload whose
    size is a multiple of its alignment, as every laid-out type's is), and the whole option is `size + align`. -/
theorem option_flag_offset (size align : Nat) (sc : SC) (ha : 0 < align) (hm : size % align = 0) :
    ((fieldInfoOf [(size, align, sc), (1, 1, .scalars 1)]).fields.map (·.offset)) = [0, size]
    ∧ (fieldInfoOf [(size, align, sc), (1, 1, .scalars 1)]).size = size + align := by
  have h1 : padTo 0 align = 0 := by simp [padTo]
  have h2 : padTo size 1 = 0 := by simp [padTo, Nat.mod_one]
  have hmax : max (max 0 align) 1 = align := by omega
  constructor
  · simp [fieldInfoOf, stepField, h1, h2, hmax, setLastPadding]
    split <;> simp [setLastPadding]
  · simp only [fieldInfoOf, List.isEmpty_cons, Bool.false_eq_true, ↓reduceIte, List.foldl_cons, List.foldl_nil, stepField, h1, h2,
      Nat.add_zero, Nat.zero_add, hmax]
    have hne : (size + 1) % align ≠ 0 ∨ align = 1 := by
      by_cases h : align = 1
      · exact Or.inr h
      · left
        have : (size + 1) % align = 1 % align := by rw [Nat.add_mod, hm]; simp
        rw [this, Nat.mod_eq_of_lt (by omega)]; omega
    rcases hne with hne | h1a
    · have hpad : padTo (size + 1) align = align - 1 := by
        unfold padTo
        have : (size + 1) % align = 1 := by
          rw [Nat.add_mod, hm]; simp
          exact Nat.mod_eq_of_lt (by
            by_cases h : align = 1
            · subst h; simp [Nat.mod_one] at hne
            · omega)
        rw [this]
        exact Nat.mod_eq_of_lt (by omega)
      simp [hne, hpad]; omega
    · subst h1a
      simp [Nat.mod_one, padTo]

/-- **When a nested struct is flattened with its padding.** The generator forces padding for a field exactly when
    the field is a struct with two transitive scalars inside a struct with three or more; it lets the caller
    decide exactly when both have two; everything else is flattened as it is (`docs/wasm_abi_quirks.md`:
    an aggregate of more than two scalars is passed "padded direct", including the padding of nested pairs). -/
theorem force_padding_iff (f w : SC) (isStruct : Bool) :
    (forcePadding f w isStruct = .force ↔ isStruct = true ∧ f = .scalars 2 ∧ ∃ n, w = .scalars n ∧ 3 ≤ n)
    ∧ (forcePadding f w isStruct = .passThrough ↔ isStruct = true ∧ f = .scalars 2 ∧ w = .scalars 2) := by
  have h3 : atLeast3 w = true ↔ ∃ n, w = .scalars n ∧ 3 ≤ n := by
    cases w <;> simp [atLeast3]
  have h22 : w = .scalars 2 → atLeast3 w = false := by rintro rfl; rfl
  unfold forcePadding
  by_cases c1 : f = .zst ∨ f = .scalars 1
  · rcases c1 with rfl | rfl <;> simp
  · by_cases c2 : isStruct = false
    · simp [c1, c2]
    · have hs : isStruct = true := by cases isStruct <;> simp_all
      by_cases c3 : f = .scalars 2 ∧ w = .scalars 2
      · obtain ⟨rfl, rfl⟩ := c3
        simp [hs]
      · by_cases c4 : f = .scalars 2 ∧ atLeast3 w = true
        · obtain ⟨rfl, hw⟩ := c4
          have hne : w ≠ .scalars 2 := fun h => by rw [h22 h] at hw; cases hw
          simp [hs, hw, hne, ← h3]
        · simp only [c1, c2, c3, c4, ↓reduceIte, reduceCtorEq, false_iff]
          constructor <;> (intro h; first | exact h.2.elim | exact h.elim | exact c4 ⟨h.2.1, h3.mpr h.2.2⟩ | exact c3 ⟨h.2.1, h.2.2⟩)

/-- The recorded observation F6: an outer struct that contains a `DiplomatOption` has the "memory" scalar count,
    for which the decision is *not* to force padding, although such a struct is certainly not passed as two scalars. -/
example : forcePadding (.scalars 2) .memory true = .noForce := by decide

example : jsFrags [.struct [.scalar 1 1, .scalar 4 4], .scalar 2 2, .opt (.scalar 2 2)] false
    = some ["this.#f0)._intoFFI(functionCleanupArena, {})",
            "diplomatRuntime.optionToArgsForCalling(this.#f2, 2, 2,",
            "/* [1 x i16] padding */",
            "diplomatRuntime.writeOptionToArrayBuffer(arrayBuffer, offset + 10, this.#f2, 2, 2,",
            "diplomatRuntime.readOption(wasm, f2Deref, 2,"] := by decide

/-! ### bytes: what is written field by field is what is read back -/

/-- **Write / read round trip over the computed layout.** Take any non-empty struct (positive alignments), any
    memory, and for every field a byte string of the field's size.  Writing each field's bytes at the offset
    `struct_field_info` computes (what `_writeToArrayBuffer` does with `offset + N`) and then reading each field
    back at that offset over its size (what `_fromFFI` does with `ptr + N`) returns exactly the bytes written for
    that field: later fields never overwrite earlier ones, because the placement is repr(C) (`layout_is_reprC`). -/
theorem write_read_roundtrip (fs : List (Nat × Nat × SC)) (hne : fs ≠ []) (hpos : ∀ f ∈ fs, 0 < f.2.1)
    (vals : List (List Nat)) (hl : vals.length = fs.length)
    (hs : ∀ i (h1 : i < fs.length) (h2 : i < vals.length), (vals[i]'h2).length = (fs[i]'h1).1) (m : Mem) :
    ∀ f ∈ ((fieldInfoOf fs).fields.map (·.offset)).zip vals,
      readAt (writeFields m (((fieldInfoOf fs).fields.map (·.offset)).zip vals)) f.1 f.2.length = f.2 := by
  have hg := layout_is_reprC fs hne hpos
  exact read_after_writeFields m _ 0 (good_ordered fs _ vals 0 hg hl hs)

example : readAt (writeFields (fun _ => 0xAA) [(0, [1]), (4, [2, 3, 4, 5]), (8, [6, 7])]) 4 4 = [2, 3, 4, 5] := by decide

/-! ### the flattened argument list (legacy ABI, "padded direct") -/

/-- **Typed padding accounts for every gap.** In one struct, the field sizes plus the padding fields
    `struct_field_info` attaches to them (`padding_count` fields of `padding_field_width` bytes each) add up to the
    struct's size — for every field list whose alignments are powers of two and whose sizes are multiples of them.
    (The count is an integer division of the gap by the previous field's alignment; the theorem shows it never
    truncates.) -/
theorem typed_padding_fills_gaps (ls : List (Nat × Nat × SC)) (hne : ls ≠ [])
    (hwf : ∀ f ∈ ls, Pow2 f.2.1 ∧ f.2.1 ∣ f.1) :
    sizeSum ls + padSum (fieldInfoOf ls).fields = (fieldInfoOf ls).size :=
  tile_one_level ls hne hwf

/-- **The padded-direct argument list covers the whole struct.** For a struct `fs` (nested to any depth, with
    options, slices and scalars of power-of-two alignment) whose padding is emitted at every level (`padOKList`:
    a two-scalar struct emits its padding only when its caller forces it), the widths of the slots `_intoFFI`
    spreads into the call — leaves, typed padding zeros, option chunks, option flags — add up to the struct's size:
    every byte of the `repr(C)` value is represented in the call exactly once, as the LLVM aggregate type
    (fields and padding arrays) requires. -/
theorem arg_slots_tile (fs : List LTy) (force : Bool) (info : Info) (ls : List (Nat × Nat × SC)) (sl : List Slot)
    (hne : fs ≠ []) (hwf : WFList fs) (hi : structFieldInfo fs = some info) (hls : layoutList fs = some ls)
    (hp : info.sc ≠ .scalars 2 ∨ force = true) (hok : padOKList fs ls info.sc force = true)
    (hs : argSlots fs force = some sl) :
    slotsWidth sl = info.size := by
  have hi' : info = fieldInfoOf ls := by
    simp [structFieldInfo, hls] at hi; exact hi.symm
  subst hi'
  have hsi : structFieldInfo fs = some (fieldInfoOf ls) := by simp [structFieldInfo, hls]
  simp only [argSlots, hsi, hls] at hs
  have hlen := layoutList_length fs ls hls
  have hne' : ls ≠ [] := by
    intro h0; rw [h0] at hlen
    exact hne (List.length_eq_zero_iff.mp hlen.symm)
  rw [fieldsSlots_tile fs (fieldInfoOf ls).fields ls (fieldInfoOf ls).sc force sl hwf hok hp hls
    (by rw [fieldInfo_fields_length, hlen]) hs]
  exact tile_one_level ls hne' (layoutList_wf fs ls hwf hls)

/-- non-vacuity: `struct { a: Pair{u8,u32}, b: u16, c: DiplomatOption<u16>, d: u64 }`-like shapes meet the premises -/
example : padOKList [.struct [.scalar 1 1, .scalar 4 4], .scalar 2 2, .scalar 8 8]
    [(8, 4, .scalars 2), (2, 2, .scalars 1), (8, 8, .scalars 1)] (.scalars 4) false = true := by decide
example : argSlots [.struct [.scalar 1 1, .scalar 4 4], .scalar 2 2, .scalar 8 8] false
    = some [.leaf 1, .pad 1, .pad 1, .pad 1, .leaf 4, .leaf 2, .pad 2, .pad 2, .pad 2, .leaf 8] := by decide

/-- **Finding F32 (witness).** A two-scalar struct next to a `DiplomatOption` field: the parent's scalar count is
    "memory", for which `forcePadding` answers `noForce`, so the pair is spread *without* its three padding bytes and
    the argument list no longer covers the struct (13 bytes of slots for a 16-byte value), although a struct holding
    a union is always passed in the padded form (docs/wasm_abi_quirks.md, "Unions in parameters"). -/
example : argSlots [.struct [.scalar 1 1, .scalar 4 4], .opt (.scalar 4 4)] false
    = some [.leaf 1, .leaf 4, .chunk 4, .flag, .pad 1, .pad 1, .pad 1] := by decide
example : (structFieldInfo [.struct [.scalar 1 1, .scalar 4 4], .opt (.scalar 4 4)]).map (·.size) = some 16 := by decide
example : padOKList [.struct [.scalar 1 1, .scalar 4 4], .opt (.scalar 4 4)]
    [(8, 4, .scalars 2), (8, 4, .memory)] .memory false = false := by decide

end DiplomatModel.Props.C08
