/-
  C12 — String output through DiplomatWrite is exact and never overruns its buffer.

  Quantifiers: every chunk list, every script of `grow` answers (each answer either a refusal or a
  capacity of at least the requested size — the documented contract), every initial capacity.
-/
import DiplomatModel.Lemmas.Write
import DiplomatModel.Generated.RuntimeTypes
import DiplomatModel.Lemmas.CppStr
namespace DiplomatModel.Props.C12
open DiplomatModel.Write DiplomatModel.Abi DiplomatModel.Generated.RuntimeTypes

/-- The buffer finally holds exactly the concatenation of the chunks written before the first failed
    growth — whole chunks only — and once a growth fails every later write is a no-op. -/
theorem content_exact (d : Option Nat) (w : W) (cs : List (List Nat)) (gs : List (Option Nat))
    (hi : Inv w) (hs : StoresOk w) :
    ∃ k, k ≤ cs.length
      ∧ (run d w cs gs).2 = List.replicate k true ++ List.replicate (cs.length - k) false
      ∧ contents (run d w cs gs).1 = contents w ++ (cs.take k).flatten
      ∧ (k < cs.length → (run d w cs gs).1.failed = true) := by
  obtain ⟨k, h1, h2, h3, h4, _⟩ := run_spec d w cs gs hi hs
  exact ⟨k, h1, h2, h3, h4⟩

/-- No byte beyond the current capacity is ever stored to. -/
theorem in_bounds (d : Option Nat) (w : W) (cs : List (List Nat)) (gs : List (Option Nat))
    (hi : Inv w) (hs : StoresOk w) :
    ∀ e ∈ (run d w cs gs).1.stores, e.1 < e.2 := by
  obtain ⟨_, _, _, _, _, _, _, h⟩ := run_spec d w cs gs hi hs
  exact h

theorem len_le_cap (d : Option Nat) (w : W) (cs : List (List Nat)) (gs : List (Option Nat))
    (hi : Inv w) (hs : StoresOk w) :
    (run d w cs gs).1.len ≤ (run d w cs gs).1.cap := by
  obtain ⟨_, _, _, _, _, _, h, _⟩ := run_spec d w cs gs hi hs
  exact h.lenCap

/-- Failure is sticky: a failed writer ignores every further write … -/
theorem sticky (d : Option Nat) (w : W) (cs : List (List Nat)) (gs : List (Option Nat))
    (hf : w.failed = true) : run d w cs gs = (w, List.replicate cs.length false) :=
  run_failed d w cs gs hf

/-- … and is reported as (null, 0) by the buffer accessors. -/
theorem failed_accessors (w : W) (hf : w.failed = true) : accessors w = (true, 0) := by
  simp [accessors, hf]

theorem ok_accessors (w : W) (hf : w.failed = false) : accessors w = (false, w.len) := by
  simp [accessors, hf]

/-- A fixed-size writer over a caller buffer of `size ≥ 1` bytes: its `flush` stores the NUL inside
    the caller's buffer, right after the written text. -/
theorem simple_flush_in_buffer (size : Nat) (hsz : 1 ≤ size) (cs : List (List Nat)) :
    let w := (run none (simpleInit size) cs []).1
    w.len < size ∧ w.buf.length = size
      ∧ (simpleFlush w).buf.take (w.len + 1) = contents w ++ [0]
      ∧ ∀ e ∈ (simpleFlush w).stores, e.1 < e.2 := by
  have hi : Inv (simpleInit size) := ⟨by simp [simpleInit], by simp [simpleInit]⟩
  have hs : StoresOk (simpleInit size) := by intro e he; simp [simpleInit] at he
  obtain ⟨_, _, _, _, _, _, hinv, hst⟩ := run_spec none (simpleInit size) cs [] hi hs
  obtain ⟨hcap0, hlen0⟩ := run_nogrow (simpleInit size) cs
  have hcap : (run none (simpleInit size) cs []).1.cap = size - 1 := by rw [hcap0]; rfl
  have hlen : (run none (simpleInit size) cs []).1.buf.length = size := by rw [hlen0]; simp [simpleInit]
  have h1 := hinv.lenCap
  intro w
  have hl : w.len < size := by show (run none (simpleInit size) cs []).1.len < size; omega
  refine ⟨hl, hlen, ?_, ?_⟩
  · have hlt : w.len < w.buf.length := by rw [hlen]; exact hl
    simp only [simpleFlush, contents]
    exact take_set_succ w.buf w.len 0 hlt
  · intro e he
    simp only [simpleFlush, List.mem_append, List.mem_singleton] at he
    rcases he with he | rfl
    · exact hst e he
    · show w.len < w.buf.length; rw [hlen]; exact hl

/-- C++: `WriteFromString(s)` (grow = `resize(requested)`, never fails) ends with `s ++ chunks`. -/
theorem cpp_string_exact (init : List Nat) (cs : List (List Nat)) :
    contents (run (some 0) (foreignInit init init.length) cs []).1 = init ++ cs.flatten := by
  have hi : Inv (foreignInit init init.length) := ⟨by simp [foreignInit], by simp [foreignInit]⟩
  have hs : StoresOk (foreignInit init init.length) := by intro e he; simp [foreignInit] at he
  obtain ⟨k, hk, _, hc, hkf, _⟩ := run_spec (some 0) (foreignInit init init.length) cs [] hi hs
  have hnf := run_infallible 0 (foreignInit init init.length) cs (by simp [foreignInit])
  have hk' : k = cs.length := by
    by_cases h : k < cs.length
    · have := hkf h; rw [hnf] at this; cases this
    · omega
  rw [hc, hk', List.take_length]
  simp [contents, foreignInit]

/-- Rust-owned buffer writer (`Vec::reserve` never refuses): everything written is there. -/
theorem rust_buffer_exact (cap extra : Nat) (cs : List (List Nat)) :
    contents (run (some extra) (foreignInit [] cap) cs []).1 = cs.flatten
      ∧ (run (some extra) (foreignInit [] cap) cs []).1.failed = false := by
  have hi : Inv (foreignInit [] cap) := ⟨by simp [foreignInit], by simp [foreignInit]⟩
  have hs : StoresOk (foreignInit [] cap) := by intro e he; simp [foreignInit] at he
  obtain ⟨k, hk, _, hc, hkf, _⟩ := run_spec (some extra) (foreignInit [] cap) cs [] hi hs
  have hnf := run_infallible extra (foreignInit [] cap) cs (by simp [foreignInit])
  have hk' : k = cs.length := by
    by_cases h : k < cs.length
    · have := hkf h; rw [hnf] at this; cases this
    · omega
  refine ⟨?_, hnf⟩
  rw [hc, hk', List.take_length]
  simp [contents, foreignInit]

/-- The C header's `DiplomatWrite` has the same fields, in the same order, with the same ABI slots
    and callback signatures as the `#[repr(C)]` Rust struct.  Both tables are regenerated from the
    source on every run. -/
theorem write_struct_agrees : rtWriteReprC = true ∧ layoutOf rtWriteFields = layoutOf cWriteFields := by
  decide

/-! non-vacuity -/
example : Inv (foreignInit [104, 105] 4) ∧ StoresOk (foreignInit [104, 105] 4) :=
  ⟨⟨by decide, by decide⟩, by intro e he; simp [foreignInit] at he⟩
example : (run none (foreignInit [] 4) [[104, 105], [1, 2, 3], [9], [7, 7]] [some 2, none]).2
    = [true, true, true, false] := by decide
example : contents (run none (foreignInit [] 4) [[104, 105], [1, 2, 3], [9], [7, 7]] [some 2, none]).1
    = [104, 105, 1, 2, 3, 9] := by decide

open DiplomatModel.CppStr in
/-- **C++ `std::string` adaptor, flushes anywhere**: whatever sequence of writes and flushes Rust performs through
    `WriteFromString(s)` — a method may flush in the middle, one writer may serve several calls — the string ends as
    `s` followed by everything written, nothing was stored outside the string, and the window advertised to Rust is
    exactly the string after every step. -/
theorem cpp_string_exact_with_flushes (init : List Nat) (ops : List Op) :
    (run init ops).str = init ++ written ops
    ∧ (run init ops).oob = false
    ∧ (run init ops).len = (run init ops).str.length ∧ (run init ops).cap = (run init ops).str.length
    ∧ (step (run init ops) .flush).str = init ++ written ops := by
  have h := run_inv init ops
  have hf := step_inv init (written ops) (run init ops) .flush h
  refine ⟨h.content, h.noOob, by rw [h.lenCap, h.capStr], h.capStr, ?_⟩
  simpa [written] using hf.content

open DiplomatModel.CppStr in
example : (step (run [104, 105] [.write [33], .flush, .write [], .write [63, 63], .flush]) .flush).str = [104, 105, 33, 63, 63] := by decide

end DiplomatModel.Props.C12
