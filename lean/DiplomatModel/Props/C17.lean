/-
  C17 — Configuration sources combine with the documented precedence.

  `pipeline file cli attrs target` is the model of main.rs + gen (tied to the real functions by
  correspondence); `effectiveShared` / `lastOf` is the documented rule written without reference to it.
-/
import DiplomatModel.Lemmas.Config
namespace DiplomatModel.Props.C17
open DiplomatModel.Config

/-- the documented rule for a shared setting, for any target: scoped keys exist for the four
    languages `Config::set` knows; for every other target only the unscoped key counts -/
def effective (file cli attrs : List (Key × Val)) (t : Lang) (n : Name) : Option Val :=
  if t.scoped then effectiveShared file cli attrs t n else lastOf (file ++ cli ++ attrs) ⟨none, n⟩

/-- **Precedence.** Whatever the three sources contain (any number of entries, any keys, any order),
    if the tool does not reject the configuration, the `lib_name` a target sees is the latest
    target-scoped entry if one exists, else the latest unscoped entry — with sources ordered
    file < command line < attribute. -/
theorem precedence_lib_name (file cli attrs : List (Key × Val)) (t : Lang) (c : Config)
    (h : pipeline file cli attrs t = some c) :
    c.libName.map Val.str = effective file cli attrs t .libName := by
  unfold pipeline at h
  unfold effective effectiveShared
  simp only
  generalize file ++ cli ++ attrs = es at h ⊢
  cases hs : setAll {} es with
  | none => rw [hs] at h; cases h
  | some c1 =>
    rw [hs] at h
    simp only at h
    obtain ⟨i1, i2, i3⟩ := setAll_spec _ _ _ hs
    obtain ⟨g1, g2⟩ := getOverridden_spec c1 c t h
    rw [g1, i1]
    cases t with
    | other s =>
      have hn : lookupOverride c1.overrides (.other s, .libName) = none :=
        setAll_noOther es {} c1 hs s .libName (by simp [lookupOverride])
      simp [Lang.scoped, hn]
    | kotlin | demoGen | nanobind | js =>
      rw [i3 _ .libName rfl rfl]
      simp only [Lang.scoped, if_true, lookupOverride, List.find?_nil, Option.map_none, Option.or_none]
      cases lastOf es ⟨some _, .libName⟩ <;> simp

theorem precedence_unsafe_refs (file cli attrs : List (Key × Val)) (t : Lang) (c : Config)
    (h : pipeline file cli attrs t = some c) :
    c.unsafeRefs.map Val.bool = effective file cli attrs t .unsafeRefs := by
  unfold pipeline at h
  unfold effective effectiveShared
  simp only
  generalize file ++ cli ++ attrs = es at h ⊢
  cases hs : setAll {} es with
  | none => rw [hs] at h; cases h
  | some c1 =>
    rw [hs] at h
    simp only at h
    obtain ⟨i1, i2, i3⟩ := setAll_spec _ _ _ hs
    obtain ⟨g1, g2⟩ := getOverridden_spec c1 c t h
    rw [g2, i2]
    cases t with
    | other s =>
      have hn : lookupOverride c1.overrides (.other s, .unsafeRefs) = none :=
        setAll_noOther es {} c1 hs s .unsafeRefs (by simp [lookupOverride])
      simp [Lang.scoped, hn]
    | kotlin | demoGen | nanobind | js =>
      rw [i3 _ .unsafeRefs rfl rfl]
      simp only [Lang.scoped, if_true, lookupOverride, List.find?_nil, Option.map_none, Option.or_none]
      cases lastOf es ⟨some _, .unsafeRefs⟩ <;> simp

/-- **Source order.** For one key: an attribute entry beats any command-line entry, which beats any
    file entry; within one source the later entry wins. -/
theorem source_order (file cli attrs : List (Key × Val)) (k : Key) :
    lastOf (file ++ cli ++ attrs) k = (lastOf attrs k).or ((lastOf cli k).or (lastOf file k)) := by
  rw [lastOf_append, lastOf_append]

theorem later_same_source_wins (es : List (Key × Val)) (k : Key) (v : Val) :
    lastOf (es ++ [(k, v)]) k = some v := by
  rw [lastOf_append]; simp [lastOf]

/-- `lastOf` is literally "the last entry whose key is `k`" -/
theorem lastOf_is_last (es : List (Key × Val)) (k : Key) :
    lastOf es k = ((es.filter fun e => e.1 = k).getLast?).map (·.2) := lastOf_eq_filter es k

/-- **Scoping.** An entry scoped to another language never changes what a target sees. -/
theorem scoped_only_own_language (a b : List (Key × Val)) (l t : Lang) (m n : Name) (v : Val) (hl : l ≠ t) :
    effective (a ++ [(⟨some l, m⟩, v)] ++ b) [] [] t n = effective (a ++ b) [] [] t n := by
  have hk1 : ¬ ((⟨some l, m⟩ : Key) = ⟨some t, n⟩) := by
    intro e; injection e with e1 _; injection e1 with e1; exact hl e1
  have hk2 : ¬ ((⟨some l, m⟩ : Key) = ⟨none, n⟩) := by simp
  unfold effective effectiveShared
  simp only [List.append_nil, lastOf_append, lastOf_cons, lastOf_nil, hk1, hk2, if_false, Option.or_none,
    Option.none_or]

/-- **kebab-case ≡ snake_case** in config.toml, for top-level keys, table names and table keys. -/
theorem kebab_eq_snake (es : List FileEntry) : readFile (es.map FileEntry.kebab) = readFile es := by
  have hc : ∀ cs : List Char, snakeChars (kebabChars cs) = snakeChars cs := by
    intro cs
    simp only [snakeChars, kebabChars, List.map_map]
    apply List.map_congr_left
    intro c _
    simp only [Function.comp]
    by_cases h1 : c = '_'
    · subst h1; decide
    · by_cases h2 : c = '-'
      · subst h2; decide
      · simp [h1, h2]
  simp only [readFile, List.map_map]
  apply List.map_congr_left
  intro e _
  simp only [Function.comp, FileEntry.kebab, FileEntry.fullKey]
  cases e.table <;> simp [hc]

/-! value parsing and non-vacuity -/
example : valueFromStr "true" = .bool true := by decide
example : valueFromStr "\"MyLibrary\"" = .str "MyLibrary" := by decide
example : valueFromStr "somelib" = .str "somelib" := by decide

def fileEx : List (Key × Val) := [(⟨none, .libName⟩, .str "MyLibrary"), (⟨some .kotlin, .libName⟩, .str "Override")]
def attrEx : List (Key × Val) := [(⟨none, .libName⟩, .str "FromAttr")]
example : (pipeline fileEx [] attrEx .kotlin).map (·.libName) = some (some "Override") := by decide
example : (pipeline fileEx [] attrEx .js).map (·.libName) = some (some "FromAttr") := by decide
example : effective fileEx [] attrEx .kotlin .libName = some (.str "Override") := by decide

/-- **A `--config` value may itself contain `=`**: the argument is split at its *first* `=`; whatever follows —
    a URL with a query, a quoted assignment — is the value. -/
theorem cli_arg_splits_at_first_eq (k v : List Char) (hk : '=' ∉ k) :
    splitFirstEq (k ++ '=' :: v) = some (k, v) := by
  induction k with
  | nil => simp [splitFirstEq]
  | cons c cs ih =>
    have hc : c ≠ '=' := fun h => hk (by simp [h])
    have hcs : '=' ∉ cs := fun h => hk (by simp [h])
    simp [splitFirstEq, hc, ih hcs]

/-- **A stray argument without `=` is skipped and nothing else**: the settings before and after it count as if it
    were not there. -/
theorem stray_cli_arg_skipped (pre post : List (List Char)) (a : List Char) (ha : '=' ∉ a) :
    readCliArgs (pre ++ a :: post) = readCliArgs (pre ++ post) := by
  have hnone : splitFirstEq a = none := by
    induction a with
    | nil => rfl
    | cons c cs ih =>
      have hc : c ≠ '=' := fun h => ha (by simp [h])
      have hcs : '=' ∉ cs := fun h => ha (by simp [h])
      simp [splitFirstEq, hc, ih hcs]
  simp [readCliArgs, List.filterMap_append, readCliArg, hnone]

example : readCliArg "demo_gen.module_name=https://cdn.example/g.mjs?v=2".toList
    = some ("demo_gen.module_name", .str "https://cdn.example/g.mjs?v=2") := by decide

end DiplomatModel.Props.C17
