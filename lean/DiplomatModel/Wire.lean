/-
  C01 — values crossing the boundary as bytes.

  Both sides of the boundary lay a value out by the C rules for the *same* description (C01's agreement theorems
  show the descriptions are equal): scalars as their little-endian bytes at naturally aligned offsets, structs
  field by field by the repr(C) algorithm, `Option`/`Result` as `{ union { ok; err; }; bool is_ok; }`.  This file
  is that layout as a codec over a byte memory: `encode` is what the caller stores, `decode` what the callee loads.
-/
import DiplomatModel.Lemmas.Memory
import DiplomatModel.AbiGen
namespace DiplomatModel.Wire
open DiplomatModel.JsLayout DiplomatModel.Memory

inductive WTy where
  | unit                                  -- an arm without payload
  | scalar (size : Nat)                   -- integer, float, bool, pointer, enum: `size` bytes, aligned to `size`
  | struct (fs : List WTy)
  | result (ok err : WTy)                 -- also `Option<T>` (`err = unit`)
  deriving Repr, Inhabited

inductive WVal where
  | unit
  | scalar (bytes : List Nat)
  | struct (vs : List WVal)
  | ok (v : WVal)
  | err (v : WVal)
  deriving Repr, Inhabited

def roundUp (n a : Nat) : Nat := n + padTo n a

mutual
/-- (size, alignment) -/
def sizeAlign : WTy → Nat × Nat
  | .unit => (0, 1)
  | .scalar s => (s, s)
  | .struct fs =>
    let i := fieldInfoOf (layouts fs)
    (i.size, i.align)
  | .result ok err =>
    let ua := max (sizeAlign ok).2 (sizeAlign err).2
    let us := roundUp (max (sizeAlign ok).1 (sizeAlign err).1) ua
    (roundUp (us + 1) ua, ua)
def layouts : List WTy → List (Nat × Nat × SC)
  | [] => []
  | t :: ts => ((sizeAlign t).1, (sizeAlign t).2, SC.zst) :: layouts ts
end

def size (t : WTy) : Nat := (sizeAlign t).1
def align (t : WTy) : Nat := (sizeAlign t).2

/-- field offsets of a struct -/
def offsets (fs : List WTy) : List Nat := (fieldInfoOf (layouts fs)).fields.map (·.offset)

/-- where the `is_ok` byte of a result lives -/
def flagOffset (ok err : WTy) : Nat := roundUp (max (size ok) (size err)) (max (align ok) (align err))

mutual
/-- what the caller stores at `base` -/
def encode : WTy → WVal → Nat → Mem → Mem
  | .unit, _, _, m => m
  | .scalar _, .scalar bs, base, m => writeAt m base bs
  | .struct fs, .struct vs, base, m => encodeFields fs vs (offsets fs) base m
  | .result ok err, .ok v, base, m => writeAt (encode ok v base m) (base + flagOffset ok err) [1]
  | .result ok err, .err v, base, m => writeAt (encode err v base m) (base + flagOffset ok err) [0]
  | _, _, _, m => m
def encodeFields : List WTy → List WVal → List Nat → Nat → Mem → Mem
  | t :: ts, v :: vs, o :: os, base, m => encodeFields ts vs os base (encode t v (base + o) m)
  | _, _, _, _, m => m
end

mutual
/-- what the callee loads from `base` -/
def decode : WTy → Nat → Mem → WVal
  | .unit, _, _ => .unit
  | .scalar s, base, m => .scalar (readAt m base s)
  | .struct fs, base, m => .struct (decodeFields fs (offsets fs) base m)
  | .result ok err, base, m =>
    if m (base + flagOffset ok err) = 0 then .err (decode err base m) else .ok (decode ok base m)
def decodeFields : List WTy → List Nat → Nat → Mem → List WVal
  | t :: ts, o :: os, base, m => decode t (base + o) m :: decodeFields ts os base m
  | _, _, _, _ => []
end

mutual
/-- the value has the shape of the type -/
def WellTyped : WTy → WVal → Prop
  | .unit, .unit => True
  | .scalar s, .scalar bs => bs.length = s
  | .struct fs, .struct vs => WellTypedList fs vs
  | .result ok _, .ok v => WellTyped ok v
  | .result _ err, .err v => WellTyped err v
  | _, _ => False
def WellTypedList : List WTy → List WVal → Prop
  | [], [] => True
  | t :: ts, v :: vs => WellTyped t v ∧ WellTypedList ts vs
  | _, _ => False
end

mutual
/-- types the boundary uses: scalars of 1, 2, 4 or 8 bytes, non-empty structs -/
def WTy.WF : WTy → Prop
  | .unit => True
  | .scalar s => s = 1 ∨ s = 2 ∨ s = 4 ∨ s = 8
  | .struct fs => fs ≠ [] ∧ WFList fs
  | .result ok err => ok.WF ∧ err.WF
def WFList : List WTy → Prop
  | [] => True
  | t :: ts => t.WF ∧ WFList ts
end

/-! ### the wire type of a bridge type (x86-64: pointers and `usize` are 8 bytes) -/

open DiplomatModel.Lower DiplomatModel.AbiGen in
def primSize : Prim → Option Nat
  | .bool => some 1 | .char => some 4 | .i8 => some 1 | .u8 => some 1 | .i16 => some 2 | .u16 => some 2
  | .i32 => some 4 | .u32 => some 4 | .i64 => some 8 | .u64 => some 8 | .i128 => none | .u128 => none
  | .isize => some 8 | .usize => some 8 | .f32 => some 4 | .f64 => some 8 | .byte => some 1

def viewW : WTy := .struct [.scalar 8, .scalar 8]

open DiplomatModel.Lower DiplomatModel.AbiGen in
/-- parameter, field or plain return type; `fuel` bounds the nesting of structs -/
def wireOf (env : Env) : Nat → TyName → Option WTy
  | 0, _ => none
  | fuel + 1, t =>
    match t with
    | .prim p => (primSize p).map .scalar
    | .ordering => some (.scalar 1)
    | .named n =>
      match env.get n with
      | some (.struct _ fields) =>
        if fields.isEmpty then some .unit
        else (optMapM (fun f : String × TyName => wireOf env fuel f.2) fields).map .struct
      | some .enumTy => some (.scalar 4)
      | _ => none
    | .ref _ _ (.named n) => if isOpaqueName env n then some (.scalar 8) else none
    | .box (.named n) => if isOpaqueName env n then some (.scalar 8) else none
    | .opt inner _ =>
      match inner with
      | .ref _ _ (.named n) => if isOpaqueName env n then some (.scalar 8) else none
      | .box (.named n) => if isOpaqueName env n then some (.scalar 8) else none
      | inner => (wireOf env fuel inner).map fun w => .result w .unit
    | .strRef _ _ _ => some viewW
    | .primSlice _ _ _ => some viewW
    | .strSlice _ _ => some viewW
    | .fn _ _ => some (.struct [.scalar 8, .scalar 8, .scalar 8])
    | .write => some (.scalar 8)
    | .unit => some .unit
    | _ => none

open DiplomatModel.Lower DiplomatModel.AbiGen in
/-- the result struct of a method returning `Result` / a non-pointer `Option` -/
def wireResult (env : Env) (fuel : Nat) : Option TyName → Option WTy
  | some (.res ok err _) =>
    match wireOf env fuel ok, wireOf env fuel err with
    | some a, some b => some (.result a b)
    | _, _ => none
  | some (.opt v _) =>
    match v with
    | .box _ => none
    | .ref .. => none
    | v => (wireOf env fuel v).map fun a => .result a .unit
  | _ => none

def natsStr (l : List Nat) : String := " ".intercalate (l.map toString)

open DiplomatModel.Lower DiplomatModel.AbiGen in
/-- `(c01wire PREFIX DECL…)` → the lines the C driver prints from `sizeof` / `_Alignof` / `offsetof`:
    `layout Name size align off…` per non-empty struct and enum, `rs ABI size flag-offset` per result struct -/
def runLine (line : String) : String :=
  match Sexp.parse line with
  | some (.list (.atom "c01wire" :: .atom pfx :: decls)) =>
    match optMapM parseDeclA decls with
    | some ds =>
      let env : Env := ds.map fun t => (t.name, t.def_)
      let fuel := ds.length + 2
      let tys := ds.flatMap fun d =>
        match d.def_ with
        | .struct _ fields =>
          if fields.isEmpty then [] else
          match wireOf env fuel (.named d.name), optMapM (fun f : String × TyName => wireOf env fuel f.2) fields with
          | some w, some fs => ["layout " ++ d.name ++ " " ++ natsStr ([size w, align w] ++ offsets fs)]
          | _, _ => ["layout " ++ d.name ++ " ?"]
        | .enumTy => ["layout " ++ d.name ++ " 4 4"]
        | _ => []
      let rs := ds.flatMap fun d => d.methods.flatMap fun m =>
        match wireResult env fuel m.ret with
        | some (.result a b) => ["rs " ++ abiName pfx d.name m.name ++ " " ++ natsStr [size (.result a b), flagOffset a b]]
        | _ => []
      " ;; ".intercalate (tys ++ rs)
    | none => "bad-case"
  | _ => "bad-case"

end DiplomatModel.Wire
