/-
  C15 — which accepted modules reach a known panic site.

  The three data-dependent panic sites that accepted modules reach on the pinned tree (recorded findings)
  are described as predicates over the bridge-module syntax of `Lower`; `predict` lists the classes a
  backend *may* hit.  Everything else in C15 is carried by the run-time tie (all seven backends under
  `catch_unwind`) and by the scan of panic-capable constructs against a reviewed baseline.
-/
import DiplomatModel.Lower
namespace DiplomatModel.Panics
open DiplomatModel.Lower

inductive Class where
  | kotlinCallbackWithSelf      -- kotlin/mod.rs gen_method: `struct_name.unwrap()`
  | jsNonCustomResultError      -- js/converter.rs: `e.id().unwrap()` on a primitive / slice error type
  | dartByteSlice               -- dart/formatter.rs fmt_primitive_alloc_in(Byte): `unreachable!("custom handling")`
  deriving Repr, DecidableEq

def isFn : TyName → Bool | .fn .. => true | _ => false

def nonCustomErr : Option TyName → Bool
  | some (.res _ err _) => match err with
    | .prim _ | .strRef .. | .primSlice .. => true
    | .opt (.box _) _ | .opt (.ref ..) _ => false     -- nullable opaque pointer: has a TypeId
    | .opt _ _ => true                                -- DiplomatOption<T>: `Type::id()` is None
    | _ => false
  | _ => false

def isByteSlice : TyName → Bool
  | .primSlice _ .byte _ => true
  | .opt (.primSlice _ .byte _) _ => true
  | _ => false

def retMentionsByteSlice : Option TyName → Bool
  | some (.res a b _) => isByteSlice a || isByteSlice b
  | some t => isByteSlice t
  | none => false

/-- `owner`: the kind of type the method is declared on -/
def methodClasses (backend : String) (owner : Custom) (m : Method) : List Class :=
  -- Kotlin passes `struct_name = None` to gen_method for every enum method and for opaque methods with `self`
  (if backend == "kotlin" && (inputParams m).any (fun p => isFn p.2)
      && (match owner with | .enumTy => true | .opaqueTy => m.self.isSome | _ => false)
   then [.kotlinCallbackWithSelf] else [])
  ++ (if backend == "js" && nonCustomErr m.ret then [.jsNonCustomResultError] else [])
  ++ (if backend == "dart" && ((inputParams m).any (fun p => isByteSlice p.2) || retMentionsByteSlice m.ret)
      then [.dartByteSlice] else [])

def fieldClasses (backend : String) (d : Custom) : List Class :=
  match d with
  | .struct _ fields => if backend == "dart" && fields.any (fun f => isByteSlice f.2) then [.dartByteSlice] else []
  | _ => []

/-- panic classes a backend may reach on this module -/
def predict (backend : String) (ts : List TypeDecl) : List Class :=
  ts.flatMap fun t => fieldClasses backend t.def_ ++ t.methods.flatMap (methodClasses backend t.def_)

def showClass : Class → String
  | .kotlinCallbackWithSelf => "kotlin-callback-with-self"
  | .jsNonCustomResultError => "js-noncustom-result-error"
  | .dartByteSlice => "dart-byte-slice"

def dedup (l : List String) : List String := l.foldr (fun x acc => if acc.contains x then acc else x :: acc) []

/-- `(c15 BACKEND DECL…)` → `may-panic: c1,c2` or `no-known-panic` -/
def runLine (line : String) : String :=
  match Sexp.parse line with
  | some (.list (.atom "c15" :: .atom backend :: decls)) =>
    match optMapM parseDecl decls with
    | some ds =>
      let cs := dedup ((predict backend ds).map showClass)
      if cs.isEmpty then "no-known-panic" else "may-panic: " ++ ",".intercalate cs
    | none => "bad-case"
  | _ => "bad-case"

end DiplomatModel.Panics
