/-
  C03 — ownership ledger for values crossing the boundary.

  Mirrors, at the level Rust's move semantics fix:
    runtime/src/result.rs    From<Result> for DiplomatResult (move in), From<DiplomatResult> for Result
                             (move out, the moved-from wrapper is *not* dropped again), Drop (payload dropped
                             once), Clone (fresh payload), DiplomatOption = DiplomatResult<T, ()>
    runtime/src/slices.rs    Box<[T]> ↔ DiplomatOwnedSlice<T> (moves), Drop (each element once, in order)
    runtime/src/callback.rs  Drop for DiplomatCallback (destructor called once iff present)
    macro/src/lib.rs         `extern "C" fn T_destroy(this: Box<T>) {}` (drops the box at scope end)

  A *handle* owns a list of payload ids.  Conversions move payloads to a fresh handle, clones create fresh
  payloads, drops log every owned payload.  `none` results mean a use of a dead or unknown handle, which
  safe Rust (affine use of owners) cannot express and the harness never generates.
-/
import DiplomatModel.Sexp
namespace DiplomatModel.Own

structure St where
  live : List (Nat × List Nat)     -- handle ↦ payloads it owns
  dropped : List Nat               -- drop log, oldest first
  nextH : Nat
  nextP : Nat
  deriving Repr

def St.init : St := ⟨[], [], 0, 0⟩

inductive Op where
  | create (n : Nat)           -- a new owner with `n` fresh payloads (Result/Option: 1 or 0; slice: n; callback with destructor: 1, without: 0; Box<T>: 1)
  | convert (h : Nat)          -- From/Into between the std and the FFI-safe representation: payloads move
  | clone (h : Nat)            -- Clone: same shape, fresh payloads
  | borrow (h : Nat)           -- as_ref / Deref: no ownership change
  | drop (h : Nat)             -- owner goes out of scope / destroy function / destructor runs
  deriving Repr

def fresh (start n : Nat) : List Nat := (List.range n).map (· + start)

/-- find the owner `h` and take it out of the live set: `(its payloads, the others)` -/
def takeH : List (Nat × List Nat) → Nat → Option (List Nat × List (Nat × List Nat))
  | [], _ => none
  | (h', ps) :: tl, h =>
    if h' = h then some (ps, tl)
    else match takeH tl h with
      | some (qs, rest) => some (qs, (h', ps) :: rest)
      | none => none

def allLive (l : List (Nat × List Nat)) : List Nat := l.flatMap (·.2)

def step (s : St) : Op → Option St
  | .create n =>
    some { s with live := s.live ++ [(s.nextH, fresh s.nextP n)], nextH := s.nextH + 1, nextP := s.nextP + n }
  | .convert h =>
    match takeH s.live h with
    | some (ps, rest) => some { s with live := rest ++ [(s.nextH, ps)], nextH := s.nextH + 1 }
    | none => none
  | .clone h =>
    match takeH s.live h with
    | some (ps, _) => some { s with live := s.live ++ [(s.nextH, fresh s.nextP ps.length)], nextH := s.nextH + 1, nextP := s.nextP + ps.length }
    | none => none
  | .borrow h =>
    match takeH s.live h with
    | some _ => some s
    | none => none
  | .drop h =>
    match takeH s.live h with
    | some (ps, rest) => some { s with live := rest, dropped := s.dropped ++ ps }
    | none => none

def run (s : St) : List Op → Option St
  | [] => some s
  | o :: os => match step s o with
    | some s' => run s' os
    | none => none

/-- everything still alive is released (in handle order) -/
def dropAll (s : St) : St := { s with live := [], dropped := s.dropped ++ allLive s.live }

/-! ### driver -/

def parseOp : Sexp → Option Op
  | .list [.atom "create", n] => n.asNat.map .create
  | .list [.atom "convert", h] => h.asNat.map .convert
  | .list [.atom "clone", h] => h.asNat.map .clone
  | .list [.atom "borrow", h] => h.asNat.map .borrow
  | .list [.atom "drop", h] => h.asNat.map .drop
  | _ => none

/-- `(own OP…)` → the drop log after running the ops and then releasing everything -/
def runLine (line : String) : String :=
  match Sexp.parse line with
  | some (.list (.atom "own" :: ops)) =>
    match optMapM parseOp ops with
    | some ops =>
      match run St.init ops with
      | some s => let f := dropAll s
        s!"drops={",".intercalate (f.dropped.map toString)} created={f.nextP}"
      | none => "ill-formed"
    | none => "bad-case"
  | _ => "bad-case"

end DiplomatModel.Own
