/-
  C11 — enum discriminants and the numeric tables / lookups each backend prints.

  Mirrors:
    core/src/ast/enums.rs            Enum::new                  (`discs`)
    tool/src/js/gen.rs               gen_enum is_contiguous     (`isContig`)
    tool/src/dart/mod.rs             is_contiguous_enum         (`isContig`)
    tool/src/kotlin/mod.rs           EnumVariants::new (fold)   (`ktFold`)
    tool/templates/{c,cpp,js,dart,kotlin,nanobind}/enum*        (`render*`)

  Two faces: `render*` print the fragments the real templates print (whitespace-normalised,
  compared by the harness), the `*ToFfi`/`*FromFfi` functions give the numeric meaning of the very
  same trees.  Theorems are in Props/C11.lean.
-/
import DiplomatModel.Sexp
namespace DiplomatModel.EnumGen

structure EnumDef where
  name : String
  vars : List (String × Option Int)
  deriving Repr

/-- `Enum::new`: explicit discriminant, else previous + 1, starting from -1. -/
def discsFrom (last : Int) : List (Option Int) → List Int
  | [] => []
  | some d :: r => d :: discsFrom d r
  | none :: r => (last + 1) :: discsFrom (last + 1) r

def discs (vs : List (Option Int)) : List Int := discsFrom (-1) vs

def EnumDef.names (e : EnumDef) : List String := e.vars.map (·.1)
def EnumDef.discs (e : EnumDef) : List Int := EnumGen.discs (e.vars.map (·.2))
/-- (name, discriminant) as in `hir::EnumVariant` -/
def EnumDef.rows (e : EnumDef) : List (String × Int) := e.names.zip e.discs

/-- `.enumerate().all(|(i, v)| i as isize == v.discriminant)` -/
def isContigFrom (i : Nat) : List Int → Bool
  | [] => true
  | d :: r => (d == (i : Int)) && isContigFrom (i + 1) r

def isContig (ds : List Int) : Bool := isContigFrom 0 ds

/-- `isize as i32` (two's complement truncation). -/
def wrapI32 (d : Int) : Int := (d + 2147483648) % 4294967296 - 2147483648
def inI32 (d : Int) : Prop := -2147483648 ≤ d ∧ d ≤ 2147483647
instance (d : Int) : Decidable (inI32 d) := by unfold inI32; infer_instance

/-! ### Kotlin's incremental fold -/

inductive KtVariants where
  | contiguous (names : List String)
  | nonContiguous (rows : List (Int × String))
  deriving Repr

def enumFrom {α} (i : Nat) : List α → List (Nat × α)
  | [] => []
  | x :: xs => (i, x) :: enumFrom (i + 1) xs

def ktStep (acc : KtVariants) (i : Nat) (v : String × Int) : KtVariants :=
  match acc with
  | .contiguous vec =>
    if (i : Int) = v.2 then .contiguous (vec ++ [v.1])
    else .nonContiguous ((enumFrom 0 vec).map (fun p => (wrapI32 (p.1 : Int), p.2)) ++ [(wrapI32 v.2, v.1)])
  | .nonContiguous vec => .nonContiguous (vec ++ [(wrapI32 v.2, v.1)])

def ktFold : KtVariants → Nat → List (String × Int) → KtVariants
  | acc, _, [] => acc
  | acc, i, v :: r => ktFold (ktStep acc i v) (i + 1) r

def ktVariants (e : EnumDef) : KtVariants := ktFold (.contiguous []) 0 e.rows

/-! ### Semantics of the printed tables -/

/-- first position whose element satisfies `p` -/
def firstIdx {α} (p : α → Bool) : List α → Option Nat
  | [] => none
  | x :: xs => if p x then some 0 else (firstIdx p xs).map (· + 1)

/-- C: `Name_Variant = d` -/
def cToFfi (e : EnumDef) (i : Nat) : Option Int := e.rows[i]?.map (·.2)

/-- C++: `Value { V = d }`, `AsFFI` = static_cast, `FromFFI` = switch over the C constants. -/
def cppToFfi (e : EnumDef) (i : Nat) : Option Int := e.rows[i]?.map (·.2)
def cppFromFfi (e : EnumDef) (v : Int) : Option Nat :=
  -- the switch admits `v` iff it equals some C constant; the result is `Value(v)`, i.e. the
  -- first enumerator of `Value` carrying that number
  if e.rows.any (fun r => r.2 == v) then firstIdx (fun r => r.2 == v) e.rows else none

/-- JS tree -/
structure JsEnum where
  contiguous : Bool
  values : List (String × Int)     -- `#values` map, in order
  objVals : List (Int × Int)       -- `#objectValues`: (key, value stored in `#value`); array ⇒ key = position
  statics : List (String × Int)    -- `static NAME = T.#objectValues[k]`
  deriving Repr

def jsEnum (e : EnumDef) : JsEnum :=
  let c := isContig e.discs
  { contiguous := c
    values := e.rows
    objVals := if c then (enumFrom 0 e.discs).map (fun p => ((p.1 : Int), p.2))
               else e.discs.map (fun d => (d, d))
    statics := e.rows }

def jsObj (t : JsEnum) (k : Int) : Option Int := (t.objVals.find? (fun p => p.1 == k)).map (·.2)
/-- `static NAME_i`'s `ffiValue` -/
def jsToFfi (t : JsEnum) (i : Nat) : Option Int := do
  let s ← t.statics[i]?
  jsObj t s.2
/-- `get value()` of an object holding `stored` -/
def jsValueName (t : JsEnum) (stored : Int) : Option String :=
  if t.contiguous then
    if 0 ≤ stored then (t.values[stored.toNat]?).map (·.1) else none
  else (t.values.find? (fun p => p.2 == stored)).map (·.1)
/-- `new T(internalConstructor, v)` then `.value` -/
def jsFromFfi (t : JsEnum) (v : Int) : Option String := do
  let stored ← jsObj t v
  jsValueName t stored

/-- Dart: contiguous ⇒ `index` / `values[i]`; else `_ffi` switch / `firstWhere`. -/
def dartToFfi (e : EnumDef) (i : Nat) : Option Int :=
  if isContig e.discs then (if i < e.rows.length then some (i : Int) else none)
  else e.rows[i]?.map (·.2)
def dartFromFfi (e : EnumDef) (v : Int) : Option Nat :=
  if isContig e.discs then (if 0 ≤ v ∧ v.toNat < e.rows.length then some v.toNat else none)
  else firstIdx (fun r => r.2 == v) e.rows

/-- Kotlin on the fold's result: `ordinal`/`entries[n]` or `inner`/`when`. -/
def ktToFfi (k : KtVariants) (i : Nat) : Option Int :=
  match k with
  | .contiguous names => if i < names.length then some (i : Int) else none
  | .nonContiguous rows => rows[i]?.map (·.1)
def ktFromFfi (k : KtVariants) (v : Int) : Option String :=
  match k with
  | .contiguous names => if 0 ≤ v then names[v.toNat]? else none
  | .nonContiguous rows => (rows.find? (fun r => r.1 == v)).map (·.2)

/-- nanobind: `.value("V", T::V)` – the Python value is the C++ enumerator of that name. -/
def pyToFfi (e : EnumDef) (i : Nat) : Option Int := do
  let n ← e.names[i]?
  (e.rows.find? (fun r => r.1 == n)).map (·.2)

/-! ### Rendering (exact text, whitespace-normalised) -/

def lowerFirst (s : String) : String :=
  match s.toList with
  | [] => ""
  | c :: cs => String.ofList (c.toLower :: cs)

def showInt (d : Int) : String := toString d

def joinSp (xs : List String) : String := " ".intercalate xs

structure Frag where
  file : String
  text : String

def renderC (e : EnumDef) : List Frag :=
  let t := e.name
  [ ⟨t ++ ".d.h",
      s!"typedef enum {t} \{ " ++ joinSp (e.rows.map fun r => s!"{t}_{r.1} = {showInt r.2},") ++ s!" } {t};"⟩,
    ⟨t ++ ".d.h", s!"typedef struct {t}_option \{union \{ {t} ok; }; bool is_ok; } {t}_option;"⟩,
    ⟨t ++ ".h", s!"{t} {t}_rt({t} self, {t} other);"⟩ ]

def renderCpp (e : EnumDef) : List Frag :=
  let t := e.name
  [ ⟨t ++ ".d.hpp",
      s!"enum {t} \{ " ++ joinSp (e.rows.map fun r => s!"{t}_{r.1} = {showInt r.2},") ++ " };"⟩,
    ⟨t ++ ".d.hpp",
      "enum Value { " ++ joinSp (e.rows.map fun r => s!"{r.1} = {showInt r.2},") ++ " };"⟩,
    ⟨t ++ ".hpp",
      s!"inline diplomat::capi::{t} {t}::AsFFI() const \{ return static_cast<diplomat::capi::{t}>(value); }"⟩,
    ⟨t ++ ".hpp",
      s!"inline {t} {t}::FromFFI(diplomat::capi::{t} c_enum) \{ switch (c_enum) \{ "
        ++ joinSp (e.rows.map fun r => s!"case diplomat::capi::{t}_{r.1}:")
        ++ s!" return static_cast<{t}::Value>(c_enum); default: abort(); } }"⟩,
    ⟨t ++ ".hpp",
      s!"inline {t} {t}::rt({t} other) const \{ auto result = diplomat::capi::{t}_rt(this->AsFFI(), other.AsFFI()); return {t}::FromFFI(result); }"⟩ ]

def renderJs (e : EnumDef) : List Frag :=
  let t := e.name
  let j := jsEnum e
  let f := t ++ ".mjs"
  let ic := "diplomatRuntime.internalConstructor"
  [ ⟨f, "#value = undefined;"⟩,
    ⟨f, "static #values = new Map([ " ++ ", ".intercalate (j.values.map fun r => s!"[\"{r.1}\", {showInt r.2}]") ++ " ]);"⟩,
    ⟨f, s!"#internalConstructor(value) \{ if (arguments.length > 1 && arguments[0] === {ic}) \{"⟩,
    ⟨f, s!"if (arguments[1] === {ic} ) \{ this.#value = arguments[2]; return this; } return {t}.#objectValues[arguments[1]]; }"⟩,
    ⟨f, s!"if (value instanceof {t}) \{ return value; } let intVal = {t}.#values.get(value);"⟩,
    ⟨f, s!"if (intVal != null) \{ return {t}.#objectValues[intVal]; } throw TypeError("⟩,
    ⟨f, s!"static fromValue(value) \{ return new {t}(value); }"⟩,
    ⟨f, if j.contiguous then
          s!"get value() \{ return [...{t}.#values.keys()][this.#value]; }"
        else
          s!"get value() \{ for (let entry of {t}.#values) \{ if (entry[1] == this.#value) \{ return entry[0]; } } }"⟩,
    ⟨f, "get ffiValue() { return this.#value; }"⟩,
    ⟨f, if j.contiguous then
          "static #objectValues = [ " ++ joinSp (j.objVals.map fun p => s!"new {t}({ic}, {ic}, {showInt p.2}),") ++ " ];"
        else
          "static #objectValues = { " ++ joinSp (j.objVals.map fun p => s!"[{showInt p.1}]: new {t}({ic}, {ic}, {showInt p.2}),") ++ " };"⟩,
    ⟨f, joinSp (j.statics.map fun r => s!"static {r.1} = {t}.#objectValues[{showInt r.2}];")⟩,
    ⟨f, s!"rt(other) \{ const result = wasm.{t}_rt(this.ffiValue, other.ffiValue); try \{ return new {t}({ic}, result); } finally \{} }"⟩,
    ⟨f, "constructor(value) { return this.#internalConstructor(...arguments) }"⟩ ]

def renderDart (e : EnumDef) : List Frag :=
  let t := e.name
  let f := t ++ ".g.dart"
  let c := isContig e.discs
  let names := e.names.map lowerFirst
  let decl := s!"enum {t} \{ " ++ ", ".intercalate names ++ ";"
  let ffi :=
    if c then ""
    else " int get _ffi { switch (this) { "
      ++ joinSp ((names.zip e.discs).map fun r => s!"case {r.1}: return {showInt r.2};") ++ " } }"
  let m :=
    if c then s!" {t} rt({t} other) \{ final result = _{t}_rt(index, other.index); return {t}.values[result]; } }"
    else s!" {t} rt({t} other) \{ final result = _{t}_rt(_ffi, other._ffi); return {t}.values.firstWhere((v) => v._ffi == result); } }"
  [ ⟨f, decl ++ ffi ++ m⟩,
    ⟨f, s!"@ffi.Native<ffi.Int32 Function(ffi.Int32, ffi.Int32)>(isLeaf: true, symbol: '{t}_rt')"⟩,
    ⟨f, s!"external int _{t}_rt(int self, int other);"⟩ ]

def renderKt (e : EnumDef) : List Frag :=
  let t := e.name
  let f := t ++ ".kt"
  let k := ktVariants e
  let meth := s!"fun rt(other: {t}): {t} \{ val returnVal = lib.{t}_rt(this.toNative(), other.toNative()); return ({t}.fromNative(returnVal)) }"
  match k with
  | .contiguous names =>
    [ ⟨f, s!"fun {t}_rt(inner: Int, other: Int): Int"⟩,
      ⟨f, s!"enum class {t} \{ " ++ ", ".intercalate names ++ "; fun toNative(): Int { return this.ordinal }"⟩,
      ⟨f, s!"fun fromNative(native: Int): {t} \{ return {t}.entries[native] }"⟩,
      ⟨f, meth⟩ ]
  | .nonContiguous rows =>
    [ ⟨f, s!"fun {t}_rt(inner: Int, other: Int): Int"⟩,
      ⟨f, s!"enum class {t}(val inner: Int) \{ " ++ ", ".intercalate (rows.map fun r => s!"{r.2}({showInt r.1})")
          ++ "; fun toNative(): Int { return this.inner }"⟩,
      ⟨f, s!"fun fromNative(native: Int): {t} \{ return when (native) \{ "
          ++ joinSp (rows.map fun r => s!"{showInt r.1} -> {r.2}")
          ++ " else -> throw RuntimeException("⟩,
      ⟨f, meth⟩ ]

def renderPy (e : EnumDef) : List Frag :=
  let t := e.name
  [ ⟨"ext.cpp", s!"nb::enum_<{t}::Value>(e_class, \"{t}\") "
      ++ joinSp (e.names.map fun n => s!".value(\"{n}\", {t}::{n})") ++ " .export_values();"⟩ ]

/-! ### Case parsing and the driver line -/

def parseVar (s : Sexp) : Option (String × Option Int) :=
  match s with
  | .list [.atom n, .atom "_"] => some (n, none)
  | .list [.atom n, d] => d.asInt.map fun i => (n, some i)
  | _ => none

/-- `(enum Name (V d|_)*)` -/
def parseCase (s : Sexp) : Option EnumDef :=
  match s with
  | .list (.atom "enum" :: .atom n :: vs) => (optMapM parseVar vs).map fun vars => { name := n, vars := vars }
  | _ => none

def showOptInts (xs : List (Option Int)) : String :=
  ",".intercalate (xs.map fun | some d => showInt d | none => "!")

def allIdx (e : EnumDef) : List Nat := List.range e.vars.length

/-- One output line: discriminants, semantic tables per backend, then the fragments. -/
def runCase (e : EnumDef) : String :=
  let ds := e.discs
  let sem :=
    s!"discs={",".intercalate (ds.map showInt)}"
    ++ s!" contig={isContig ds}"
    ++ s!" js={showOptInts ((allIdx e).map (jsToFfi (jsEnum e)))}"
    ++ s!" dart={showOptInts ((allIdx e).map (dartToFfi e))}"
    ++ s!" kt={showOptInts ((allIdx e).map (ktToFfi (ktVariants e)))}"
  let pre (b : String) (fs : List Frag) : List Frag := fs.map fun f => { f with file := b ++ "/" ++ f.file }
  let frags := pre "c" (renderC e) ++ pre "cpp" (renderCpp e) ++ pre "js" (renderJs e)
    ++ pre "dart" (renderDart e) ++ pre "kotlin" (renderKt e) ++ pre "nanobind" (renderPy e)
  sem ++ "\t" ++ "\t".intercalate (frags.map fun f => f.file ++ "|" ++ f.text)

def runLine (line : String) : String :=
  match Sexp.parse line with
  | none => "bad-case"
  | some s => match parseCase s with
    | none => "bad-case"
    | some e => runCase e

end DiplomatModel.EnumGen
