/-
  C10 — the JS return slot of a `Result`.

  A method whose `Result<T, E>` comes back through memory makes the generated JS allocate
  `new DiplomatReceiveBuf(wasm, size, align, true)` and read `is_ok` from byte `size - 1` of it
  (tool/src/js/converter.rs `gen_c_to_js_for_return_type`, tool/templates/js/runtime.mjs `resultFlag`).
  This file is that computation; Props/C10 relates it to the wire layout of `DiplomatResult<T, E>` (Wire.lean).
-/
import DiplomatModel.Wire
namespace DiplomatModel.JsSlot
open DiplomatModel.Wire DiplomatModel.Sexp

/-- how the success value of the method travels -/
inductive Succ where
  | unit                 -- `Result<(), E>`
  | out (t : WTy)        -- a value in the slot
  | write                -- a string through the write buffer: on the wire the method returns `Result<(), E>`
  deriving Repr, Inhabited

/-- `unit_size_alignment()`: a `usize` on wasm32 -/
def unitLayout : Nat × Nat := (4, 4)

/-- Rust's `usize::div_ceil` -/
def divCeil (p a : Nat) : Nat := (p + a - 1) / a

/-- `let layout = match ok { … }`: the success value's layout as the generator sees it -/
def okLayout : Succ → Option WTy → Nat × Nat
  | .unit, _ => unitLayout
  | .out t, _ => sizeAlign t
  | .write, some e => sizeAlign e
  | .write, none => unitLayout

/-- a unit success value takes no room next to an error payload -/
def okBeside : Succ → Nat × Nat → Nat × Nat
  | .unit, _ => (0, 1)
  | .out _, l => l
  | .write, l => l

/-- arguments `(size, align)` of the receive buffer -/
def resultSlot (ok : Succ) (err : Option WTy) : Nat × Nat :=
  match err with
  | some e =>
    let o := okBeside ok (okLayout ok (some e))
    let a := max o.2 (sizeAlign e).2
    let p := max o.1 (sizeAlign e).1
    (divCeil p a * a + 1, a)
  | none => ((okLayout ok none).1 + 1, (okLayout ok none).2)

/-- byte of the slot the runtime's `resultFlag` reads -/
def flagByte (ok : Succ) (err : Option WTy) : Nat := (resultSlot ok err).1 - 1

/-- the success arm of the Rust-side `DiplomatResult` -/
def rustOk : Succ → WTy
  | .unit => .unit
  | .out t => t
  | .write => .unit

/-! ### driver: `(c10slot OK ERR)` with `OK ::= unit | write | TY`, `ERR ::= none | TY`,
    `TY ::= (s N) | (st TY…)` → `size align` -/

partial def parseTy : Sexp → Option WTy
  | .list [.atom "s", .atom n] => n.toNat?.map .scalar
  | .list (.atom "st" :: fs) => (fs.mapM parseTy).map .struct
  | _ => none

def runLine (line : String) : String :=
  match Sexp.parse line with
  | some (.list [.atom "c10slot", ok, err]) =>
    let okK : Option Succ := match ok with
      | .atom "unit" => some .unit
      | .atom "write" => some .write
      | t => (parseTy t).map .out
    let errK : Option (Option WTy) := match err with
      | .atom "none" => some none
      | t => (parseTy t).map some
    match okK, errK with
    | some o, some e =>
      let s := resultSlot o e
      toString s.1 ++ " " ++ toString s.2
    | _, _ => "bad-case"
  | _ => "bad-case"

end DiplomatModel.JsSlot
