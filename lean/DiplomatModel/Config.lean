/-
  C17 — tool/src/config.rs: how `config.toml`, `--config k=v` and `#[diplomat::config(k = v)]`
  combine, and how a target reads the result.

  Mirrors `Config::set`, `SharedConfig::set`/`overrides_shared`, `KotlinConfig::set`, `DemoConfig::set`,
  `JsConfig::set`, `Config::get_overridden`, `Config::read_file` (kebab → snake), `read_cli_settings`,
  `toml_value_from_str`, and the order in which `main.rs` + `gen` apply the three sources.
  Keys are structured (`scope.name`); the driver parses real key strings into this form.
-/
import DiplomatModel.Sexp
namespace DiplomatModel.Config

inductive Lang where
  | kotlin | demoGen | nanobind | js
  | other (s : String)          -- any other first segment: `Config::set` hands the whole key to SharedConfig
  deriving Repr, DecidableEq

inductive Name where
  | libName | unsafeRefs | domain | finalizers | abi
  | explicitGen | hideRenderer | moduleName | relPath
  | unknown (s : String)
  deriving Repr, DecidableEq

structure Key where
  scope : Option Lang
  name : Name
  deriving Repr, DecidableEq

inductive Val where
  | str (s : String) | bool (b : Bool) | int (i : Int) | table
  deriving Repr, DecidableEq

def Val.asStr : Val → Option String | .str s => some s | _ => none
def Val.asBool : Val → Option Bool | .bool b => some b | _ => none

inductive WasmAbi where | legacy | spec deriving Repr, DecidableEq

structure Config where
  libName : Option String := none
  unsafeRefs : Option Bool := none
  domain : Option String := none
  finalizers : Option Bool := none
  abi : WasmAbi := .legacy
  explicitGen : Option Bool := none
  hideRenderer : Option Bool := none
  moduleName : Option String := none
  relPath : Option String := none
  /-- `language_overrides`: at most one value per (language, shared name) -/
  overrides : List ((Lang × Name) × Val) := []
  deriving Repr

def Name.isShared : Name → Bool
  | .libName | .unsafeRefs => true
  | _ => false

/-- `SharedConfig::set`; `none` = panic ("must be a string" / "must be a boolean") -/
def sharedSet (c : Config) (n : Name) (v : Val) : Option Config :=
  match n with
  | .libName => match v with | .str s => some { c with libName := some s } | _ => none
  | .unsafeRefs => match v with | .bool b => some { c with unsafeRefs := some b } | _ => none
  | _ => some c

def kotlinSet (c : Config) (n : Name) (v : Val) : Config :=
  match n with
  | .domain => match v with | .str s => { c with domain := some s } | _ => c
  | .finalizers => { c with finalizers := v.asBool }
  | _ => c

def demoSet (c : Config) (n : Name) (v : Val) : Config :=
  match n with
  | .explicitGen => { c with explicitGen := v.asBool }
  | .hideRenderer => { c with hideRenderer := v.asBool }
  | .moduleName => { c with moduleName := v.asStr }
  | .relPath => { c with relPath := v.asStr }
  | _ => c

def jsSet (c : Config) (n : Name) (v : Val) : Config :=
  match n with
  | .abi => { c with abi := if v.asStr = some "spec" then .spec else .legacy }
  | _ => c

def insertOverride (os : List ((Lang × Name) × Val)) (k : Lang × Name) (v : Val) : List ((Lang × Name) × Val) :=
  (os.filter fun p => p.1 ≠ k) ++ [(k, v)]

/-- `Config::set` -/
def set (c : Config) (k : Key) (v : Val) : Option Config :=
  match k.scope with
  | none => sharedSet c k.name v
  | some (.other _) => some c        -- "foo.lib_name" reaches SharedConfig::set as an unknown key
  | some l =>
    if k.name.isShared then some { c with overrides := insertOverride c.overrides (l, k.name) v }
    else match l with
      | .kotlin => some (kotlinSet c k.name v)
      | .demoGen => some (demoSet c k.name v)
      | .js => some (jsSet c k.name v)
      | _ => some c

def setAll (c : Config) : List (Key × Val) → Option Config
  | [] => some c
  | (k, v) :: r => match set c k v with
    | some c' => setAll c' r
    | none => none

def lookupOverride (os : List ((Lang × Name) × Val)) (k : Lang × Name) : Option Val :=
  (os.find? fun p => p.1 = k).map (·.2)

/-- `Config::get_overridden(target)`: every stored override whose key starts with `target.` is
    applied to the shared settings. Only the four scoped languages can have stored overrides. -/
def getOverridden (c : Config) (target : Lang) : Option Config :=
  let step (c : Option Config) (n : Name) : Option Config :=
    match c with
    | none => none
    | some c => match lookupOverride c.overrides (target, n) with
      | some v => sharedSet c n v
      | none => some c
  step (step (some c) .libName) .unsafeRefs

/-- main.rs + gen: file entries, then CLI entries, then attribute entries, then `get_overridden`. -/
def pipeline (file cli attrs : List (Key × Val)) (target : Lang) : Option Config :=
  match setAll {} (file ++ cli ++ attrs) with
  | some c => getOverridden c target
  | none => none

/-! ### the documented rule, stated independently -/

/-- the value of the last entry for key `k`: a later entry wins, otherwise this one if it matches -/
def lastOf : List (Key × Val) → Key → Option Val
  | [], _ => none
  | (k', v) :: es, k => (lastOf es k).or (if k' = k then some v else none)

/-- effective value of a shared setting for a target: the latest language-scoped entry if there is
    one, otherwise the latest unscoped entry (sources ordered file < cli < attribute). -/
def effectiveShared (file cli attrs : List (Key × Val)) (target : Lang) (n : Name) : Option Val :=
  let es := file ++ cli ++ attrs
  match lastOf es ⟨some target, n⟩ with
  | some v => some v
  | none => lastOf es ⟨none, n⟩

/-! ### file keys: kebab-case ≡ snake_case -/

/-- `heck::AsSnakeCase` on keys made of lowercase letters, digits, `_` and `-` -/
def snakeChars (cs : List Char) : List Char := cs.map fun c => if c = '-' then '_' else c
def kebabChars (cs : List Char) : List Char := cs.map fun c => if c = '_' then '-' else c

def parseLang : String → Lang
  | "kotlin" => .kotlin | "demo_gen" => .demoGen | "nanobind" => .nanobind | "js" => .js
  | s => .other s

def parseName : String → Name
  | "lib_name" => .libName | "unsafe_references_in_callbacks" => .unsafeRefs
  | "domain" => .domain | "use_finalizers_not_cleaners" => .finalizers | "abi" => .abi
  | "explicit_generation" => .explicitGen | "hide_default_renderer" => .hideRenderer
  | "module_name" => .moduleName | "relative_js_path" => .relPath
  | s => .unknown s

/-- the language whose scoped keys a target reads: `gen` strips a trailing `2`, and
    `get_overridden` treats `py-nanobind` as `nanobind` -/
def targetLang (t : String) : Lang :=
  let t := if t.endsWith "2" then (t.dropEnd 1).toString else t
  if t = "py-nanobind" then .nanobind else parseLang t

/-- keys with at most one dot (the harness generates no others) -/
def parseKey (s : String) : Option Key :=
  match s.splitOn "." with
  | [n] => some ⟨none, parseName n⟩
  | [l, n] => some ⟨some (parseLang l), parseName n⟩
  | _ => none

/-- a config.toml entry: top-level `key = v` or `[table] sub = v` -/
structure FileEntry where
  table : Option (List Char)
  key : List Char
  val : Val

def FileEntry.fullKey (e : FileEntry) : String :=
  match e.table with
  | none => String.ofList (snakeChars e.key)
  | some t => String.ofList (snakeChars t) ++ "." ++ String.ofList (snakeChars e.key)

/-- `read_file`: the `(key, value)` pairs handed to `Config::set`, in file order -/
def readFile (es : List FileEntry) : List (String × Val) := es.map fun e => (e.fullKey, e.val)

def FileEntry.kebab (e : FileEntry) : FileEntry :=
  { e with table := e.table.map kebabChars, key := kebabChars e.key }

/-! ### `toml_value_from_str` (values from `--config` and attributes) -/

def isDigits (cs : List Char) : Bool := !cs.isEmpty && cs.all Char.isDigit

/-- the text is parsed as a TOML *value*; what does not parse is taken as a plain string -/
def valueFromStr (s : String) : Val :=
  match s.toList with
  | ['t', 'r', 'u', 'e'] => .bool true
  | ['f', 'a', 'l', 's', 'e'] => .bool false
  | '"' :: rest =>
    match rest.reverse with
    | '"' :: mid => if mid.all (fun c => c != '"' && c != '\\') then .str (String.ofList mid.reverse) else .str s
    | _ => .str s
  | '-' :: ds => if isDigits ds then .int (-(String.ofList ds).toNat!) else .str s
  | cs => if isDigits cs then .int (String.ofList cs).toNat! else .str s

/-! ### `read_cli_settings`: the `--config KEY=VALUE` arguments -/

/-- `c.split_once("=")`: the text before and after the first `=` -/
def splitFirstEq : List Char → Option (List Char × List Char)
  | [] => none
  | c :: rest =>
    if c = '=' then some ([], rest)
    else match splitFirstEq rest with
      | some (k, v) => some (c :: k, v)
      | none => none

/-- one argument: a setting, or nothing when it has no `=` (skipped with a notice) -/
def readCliArg (a : List Char) : Option (String × Val) :=
  match splitFirstEq a with
  | some (k, v) => some (String.ofList k, valueFromStr (String.ofList v))
  | none => none

def readCliArgs (args : List (List Char)) : List (String × Val) := args.filterMap readCliArg

/-! ### driver -/

def showOpt {α} (f : α → String) : Option α → String
  | none => "-"
  | some a => f a

def showCfg (c : Config) : String :=
  s!"lib_name={showOpt (fun s => "\"" ++ s ++ "\"") c.libName} unsafe_refs={showOpt toString c.unsafeRefs} "
  ++ s!"domain={showOpt (fun s => "\"" ++ s ++ "\"") c.domain} finalizers={showOpt toString c.finalizers} "
  ++ s!"abi={match c.abi with | .legacy => "legacy" | .spec => "spec"} "
  ++ s!"explicit_generation={showOpt toString c.explicitGen} hide_default_renderer={showOpt toString c.hideRenderer} "
  ++ s!"module_name={showOpt (fun s => "\"" ++ s ++ "\"") c.moduleName} relative_js_path={showOpt (fun s => "\"" ++ s ++ "\"") c.relPath}"

def parseVal (s : Sexp) : Option Val :=
  match s with
  | .list [.atom "s", .atom x] => some (.str x)
  | .list [.atom "b", .atom "true"] => some (.bool true)
  | .list [.atom "b", .atom "false"] => some (.bool false)
  | .list [.atom "i", x] => x.asInt.map .int
  | _ => none

/-- file entry: `(f TABLE|- KEY VAL)`; cli / attr entry: `(r KEY "raw text")` -/
def parseFileEntry (s : Sexp) : Option FileEntry :=
  match s with
  | .list [.atom "f", .atom t, .atom k, v] =>
    (parseVal v).map fun v => { table := if t = "-" then none else some t.toList, key := k.toList, val := v }
  | _ => none

def parseRaw (s : Sexp) : Option (String × Val) :=
  match s with
  | .list [.atom "r", .atom k, .atom v] => some (k, valueFromStr v)
  | _ => none

/-- command-line entries: `(a "RAW ARGUMENT")` as typed after `--config` (or the older `(r KEY "text")`) -/
def parseCli : List Sexp → Option (List (String × Val))
  | [] => some []
  | .list [.atom "a", .atom arg] :: rest =>
    match parseCli rest with
    | some es => some ((readCliArg arg.toList).toList ++ es)
    | none => none
  | e :: rest =>
    match parseRaw e, parseCli rest with
    | some x, some es => some (x :: es)
    | _, _ => none

def keyed (es : List (String × Val)) : Option (List (Key × Val)) :=
  optMapM (fun e => (parseKey e.1).map fun k => (k, e.2)) es

/-- `(cfg TARGET (file…) (cli…) (attrs…))` -/
def runLine (line : String) : String :=
  match Sexp.parse line with
  | some (.list [.atom "cfg", .atom target, .list file, .list cli, .list attrs]) =>
    match optMapM parseFileEntry file, parseCli cli, optMapM parseRaw attrs with
    | some f, some c, some a =>
      match keyed (readFile f), keyed c, keyed a with
      | some f, some c, some a =>
        match pipeline f c a (targetLang target) with
        | some cfg => showCfg cfg
        | none => "panic"
      | _, _, _ => "bad-case"
    | _, _, _ => "bad-case"
  | _ => "bad-case"

end DiplomatModel.Config
