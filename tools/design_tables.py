#!/usr/bin/env python3
"""Regenerate the tables of DESIGN.md Part II (status, findings, seeds) from evidence/*.json, MANIFEST.json,
known_findings.json and seeded/*/meta.json.  Descriptions of seeds already in the table are kept; new seeds take
the first heading of their README.md."""
import json, os, re, glob

V = os.path.dirname(os.path.dirname(os.path.abspath(__file__)))
D = os.path.join(V, "DESIGN.md")
text = open(D).read()


def replace_table(text, header_re, rows):
    """replace the rows of the first markdown table after the heading matching header_re"""
    m = re.search(header_re, text, re.M)
    assert m, header_re
    start = text.index("\n|", m.end()) + 1
    lines = text[start:].split("\n")
    n = 0
    while n < len(lines) and lines[n].startswith("|"):
        n += 1
    head = lines[:2]
    return text[:start] + "\n".join(head + rows) + "\n" + "\n".join(lines[n:])


# ---- status
man = json.load(open(os.path.join(V, "MANIFEST.json")))
rows = []
for c in man["checks"]:
    pid = c["property_id"]
    try:
        cov = json.load(open(os.path.join(V, "evidence", pid + ".json")))["coverage"]
    except Exception:
        cov = {}
    tech = c.get("technique", "")
    rows.append(f"| {pid} | {cov.get('discharged', '?')} | {cov.get('correspondence_cases', cov.get('evaluations', '?'))} | {cov.get('oracle_runs', '?')} | {tech[:230]} |")
text = re.sub(r"\| id \| theorems checked \| cases \| oracle runs \| wall \| deciding technique[^\n]*\n\|[-|]*\n", "| id | theorems checked | cases | oracle runs | deciding technique (MANIFEST `technique`, abridged) |\n|----|----|----|----|----|\n", text)
text = replace_table(text, r"^## 10\. Status", rows)

# ---- findings
kf = json.load(open(os.path.join(V, "known_findings.json")))["findings"]
rows = []
for f in kf:
    st = f["status"] + (f" ({f['commit']})" if f.get("commit") else "")
    what = f["what"].replace("|", "\\|").replace("\n", " ")
    rows.append(f"| {f['id']} | {f['property']} | {st} | {what[:420]} |")
text = replace_table(text, r"^## 12\. Findings", rows)

# ---- seeds
old = {}
m = re.search(r"^## 13\. Seeded", text, re.M)
for line in text[m.end():].split("\n"):
    mm = re.match(r"\| (C\d\d-\d+) \| (.*?) \| (.*?) \|$", line)
    if mm:
        old[mm.group(1)] = mm.group(2)
rows = []
det = tot = 0
for d in sorted(glob.glob(os.path.join(V, "seeded", "C*-*")), key=lambda p: (os.path.basename(p).split("-")[0], int(os.path.basename(p).split("-")[1]))):
    sid = os.path.basename(d)
    try:
        meta = json.load(open(os.path.join(d, "meta.json")))
    except Exception:
        continue
    desc = old.get(sid)
    if not desc:
        desc = ""
        rd = os.path.join(d, "README.md")
        if os.path.exists(rd):
            for line in open(rd):
                if line.startswith("#"):
                    desc = line.lstrip("# ").strip()
                    desc = re.sub(r"^(Seed\s*)?(C\d\d)?[\s-]*(seed\s*)?\d*\s*[—:\-–]+\s*", "", desc, flags=re.I)
                    break
    desc = desc.replace("|", "\\|")[:200]
    tot += 1
    if meta.get("detected"):
        det += 1
        how = "yes" + (" (tie only: no-failing-input-found)" if meta.get("no_failing_input_found_lines", 0) >= max(1, meta.get("violation_lines", 0)) else "")
    else:
        how = "**no**"
    rows.append(f"| {sid} | {desc} | {how} |")
text = replace_table(text, r"^## 13\. Seeded", rows)
open(D, "w").write(text)
print(f"status rows {len(man['checks'])}, findings {len(kf)}, seeds {tot} ({det} detected)")
