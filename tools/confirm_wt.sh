#!/bin/bash
# confirm_wt.sh <PROP> <k>: the worktree half of confirm_seed.sh (suite with the change, demo with / without), result in /tmp/wtres-<P>-<k>.txt
set -u
P=$1; K=$2; WT=/tmp/wt-$P; S=$WT/seed/$K
export CARGO_TARGET_DIR=$WT/target CARGO_NET_OFFLINE=true
cd $WT && git checkout -q -- . && git apply $S/patch.diff || { echo "patch does not apply"; exit 2; }
TESTS=$(cargo test --workspace --no-fail-fast --offline 2>&1 | grep -E "^test result" | awk '{p+=$4; f+=$6} END {print p" passed "f" failed"}')
( cd $S/demo && bash run.sh >/tmp/demo-$P-$K-with.log 2>&1 ); DW=$?
git checkout -q -- .
( cd $S/demo && bash run.sh >/tmp/demo-$P-$K-without.log 2>&1 ); DWO=$?
printf 'TESTS="%s"\nDW=%s\nDWO=%s\n' "$TESTS" "$DW" "$DWO" > /tmp/wtres-$P-$K.txt
echo "$P-$K tests=[$TESTS] demo_with=$DW demo_without=$DWO"
