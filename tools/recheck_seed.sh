#!/bin/bash
# recheck_seed.sh <PROP> <k> [tier]: apply the kept seed to /repo, run our check, undo; update meta.json
set -u
P=$1; K=$2; T=${3:-quick}; OUT=/verif/seeded/$P-$K
unset CARGO_TARGET_DIR
cd /repo && git checkout -q -- . && git apply $OUT/patch.diff; AP=$?
cd /verif && ./check $P --tier $T > /tmp/check-$P-$K.log 2>&1; CR=$?
cd /repo && git checkout -q -- .
VL=$(grep -c "^VIOLATION" /tmp/check-$P-$K.log); NF=$(grep -c "no-failing-input-found" /tmp/check-$P-$K.log)
python3 - <<PY
import json,os
p="$OUT/meta.json"
m=json.load(open(p)) if os.path.exists(p) else {"property":"$P","seed":"$K"}
m.update({"applies_to_repo_head":$AP==0,"check_cmd":"./check $P --tier $T","check_exit":$CR,"violation_lines":$VL,"no_failing_input_found_lines":$NF,"detected":$CR==1,
 "first_lines": open("/tmp/check-$P-$K.log").read().splitlines()[:4]})
json.dump(m,open(p,"w"),indent=1)
PY
echo "$P-$K apply=$AP check_exit=$CR violations=$VL nofail=$NF"
