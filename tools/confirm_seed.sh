#!/bin/bash
# confirm_seed.sh <PROP> <k> : re-verify a sub-agent's seed in its scratch worktree, then run our check against it in /repo.
# Writes /verif/seeded/<PROP>-<k>/{patch.diff,demo/,README.md,meta.json}
set -u
P=$1; K=$2; WT=/tmp/wt-$P; S=$WT/seed/$K; OUT=/verif/seeded/$P-$K
export CARGO_TARGET_DIR=$WT/target CARGO_NET_OFFLINE=true
mkdir -p $OUT; cp -r $S/patch.diff $S/README.md $OUT/ 2>/dev/null; rm -rf $OUT/demo; cp -r $S/demo $OUT/demo 2>/dev/null
if [ -f /tmp/wtres-$P-$K.txt ]; then
  # the worktree part was done beforehand (tools/confirm_wt.sh), e.g. when this runs in a private view of /repo
  source /tmp/wtres-$P-$K.txt
else
cd $WT && git checkout -q -- . && git apply $S/patch.diff || { echo "patch does not apply"; exit 2; }
TESTS=$(cargo test --workspace --no-fail-fast --offline 2>&1 | grep -E "^test result" | awk '{p+=$4; f+=$6} END {print p" passed "f" failed"}')
( cd $S/demo && bash run.sh >/tmp/demo-$P-$K-with.log 2>&1 ); DW=$?
git checkout -q -- .
( cd $S/demo && bash run.sh >/tmp/demo-$P-$K-without.log 2>&1 ); DWO=$?
fi
# our check against the change, in /repo
unset CARGO_TARGET_DIR
# a seed made before a later fix commit may need its patch carried over to /repo's HEAD (kept next to the original)
RP=$S/patch.diff; if [ -f $S/patch.rebased.diff ]; then RP=$S/patch.rebased.diff; cp $S/patch.diff $OUT/patch.orig.diff; cp $RP $OUT/patch.diff; fi
cd /repo && git apply $RP; AP=$?
cd /verif && ./check $P --tier quick > /tmp/check-$P-$K.log 2>&1; CR=$?
cd /repo && git checkout -q -- .
VL=$(grep -c "^VIOLATION" /tmp/check-$P-$K.log)
NF=$(grep -c "no-failing-input-found" /tmp/check-$P-$K.log)
python3 - <<PY
import json
json.dump({"property":"$P","seed":"$K","tests_with_change":"$TESTS","demo_exit_with_change":$DW,"demo_exit_without_change":$DWO,
 "applies_to_repo_head":$AP==0,"check_cmd":"./check $P --tier quick","check_exit":$CR,"violation_lines":$VL,"no_failing_input_found_lines":$NF,
 "detected": $CR==1, "first_lines": open("/tmp/check-$P-$K.log").read().splitlines()[:4]}, open("$OUT/meta.json","w"), indent=1)
PY
echo "$P-$K tests=[$TESTS] demo_with=$DW demo_without=$DWO check_exit=$CR violations=$VL nofail=$NF"
