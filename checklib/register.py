#!/usr/bin/env python3
"""register.py <ID> <spec.json>: add/replace a property in checklib/props.json and MANIFEST.json.
spec: {rule, trusted_base[], assumptions[], tables[]?, timeout{}?, level_text, level_note, technique}"""
import json, sys, os
V = os.path.dirname(os.path.dirname(os.path.abspath(__file__)))
pid, spec = sys.argv[1], json.load(open(sys.argv[2]))
props = json.load(open(os.path.join(V, "checklib/props.json")))
KERNEL = props["C11"]["trusted_base"][0]; HARNESS = props["C11"]["trusted_base"][1]
entry = {"rule": spec["rule"], "trusted_base": [KERNEL, HARNESS] + spec["trusted_base"], "assumptions": spec["assumptions"]}
for k in ("tables", "timeout", "lean_modules"):
    if k in spec: entry[k] = spec[k]
props[pid] = entry
json.dump(props, open(os.path.join(V, "checklib/props.json"), "w"), indent=1)
m = json.load(open(os.path.join(V, "MANIFEST.json")))
chk = {"property_id": pid, "quick_cmd": f"./check {pid} --tier quick", "thorough_cmd": f"./check {pid} --tier thorough",
       "evidence_file": f"evidence/{pid}.json", "replay_cmd_template": f"./check {pid} --replay {{path}}", "engine": "lean-model",
       "level_claimed": {"category": "proof", "text": spec["level_text"], "design_ref": f"DESIGN.md section 5 {pid}"},
       "level_note": spec["level_note"], "technique": spec["technique"]}
m["checks"] = [c for c in m["checks"] if c["property_id"] != pid] + [chk]
m["checks"].sort(key=lambda c: c["property_id"])
m["not_applicable"] = [n for n in m.get("not_applicable", []) if n["property_id"] != pid]
for e in m["engines"]:
    e["serves_properties"] = sorted(set(e["serves_properties"] + [pid]))
json.dump(m, open(os.path.join(V, "MANIFEST.json"), "w"), indent=1)
print("registered", pid)
