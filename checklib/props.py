"""Per-property configuration for ./check (what is proved, what is trusted, how cases are made).
The data lives in props.json next to this file."""
import json, os
PROPS = json.load(open(os.path.join(os.path.dirname(os.path.abspath(__file__)), "props.json")))
