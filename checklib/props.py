"""Per-property configuration for ./check (what is proved, what is trusted, how cases are made)."""

KERNEL = "Lean 4.33.0 kernel; axioms allowed: propext, Classical.choice, Quot.sound (checked per theorem by #print axioms); no sorry/native_decide/own axioms"
HARNESS = "correspondence harness (vharness): case generators, fragment containment on whitespace-normalised text, s-expression printer"

PROPS = {
    "C11": {
        "rule": "random C-like enums (1..8 variants quick, up to 40 thorough; explicit/implicit/negative/non-monotonic/i32-boundary discriminants, contiguous and broken-prefix shapes); distinct = distinct variant lists; every generated enum is non-trivial (has >= 1 variant and is rendered by six backends)",
        "trusted_base": [
            KERNEL, HARNESS,
            "modelled not verified: meaning of the printed tables in C/C++/JS (validated each run by gcc, g++ and node on the real outputs), Dart, Kotlin/JNA and nanobind (documented semantics; SDKs absent)",
            "rustc's discriminant rule is validated each run by compiling the sampled enums with rustc",
        ],
        "assumptions": [
            "Dart `index`/`values[i]`/`firstWhere`, Kotlin `ordinal`/`entries[i]`/`when`, nanobind `.value(name, cpp_enumerator)` behave as their language documentation says (A-dart, A-jna)",
            "variant names are single capitalised words (no heck case-splitting is modelled)",
        ],
    },
    "C16": {
        "rule": "UTF-8: all byte strings of length <= 2 and (quick) all 3-byte strings with leads E0/ED/EF/41/7F/80/C1/C2/DF/E1/F0/F4/F5 and 4-byte strings with leads F0/F4 x boundary second bytes, (thorough) all strings of length <= 3 and all 4-byte strings with lead F0..F4, via 65536-bit acceptance masks, plus random near-valid longer strings; views: every primitive element type x lengths (0..64) x {ref, mut, owned, NULL+0, str, owned str}; distinct = distinct protocol lines",
        "trusted_base": [
            KERNEL, HARNESS,
            "modelled not verified: Rust reference/Box non-nullness and `&[]`/NonNull::dangling being non-null; core::str::from_utf8 is exercised as the implementation under test through diplomat_is_str",
            "the harness's reference decoder (Unicode D92 definition) used as oracle for diplomat_is_str",
        ],
        "assumptions": [
            "debug assertions are off in the harness build (NULL views with non-zero length are not exercised; the property only speaks of NULL+0)",
            "diplomat_alloc/diplomat_free are not modelled (std allocator pass-through)",
        ],
    },
    "C12": {
        "tables": ["RuntimeTypes"],
        "rule": "random write histories: caller-supplied writers (initial capacity 0..40, optional pre-filled text, 0..12 chunks incl. empty and multi-byte UTF-8, scripted grow answers refuse / grant requested+extra), fixed-buffer writers (size 1..65), Rust-owned writers; distinct = distinct protocol lines; non-trivial = at least one chunk",
        "trusted_base": [
            KERNEL, HARNESS,
            "translator: field lists of DiplomatWrite read from runtime/src/write.rs (syn) and capi.h.jinja (small C declaration parser)",
            "modelled not verified: fmt::Write call protocol, ptr::copy_nonoverlapping as per-byte stores, Vec::reserve as allocate-copy (capacity of Rust-owned buffers is not compared)",
            "C++ WriteFromString adaptor: tied by exact text of _grow/_flush/WriteFromString in the generated diplomat_runtime.hpp; std::string::resize semantics assumed (A-cpp)",
        ],
        "assumptions": [
            "grow callbacks honour the documented contract (new capacity >= requested, old contents copied); answers violating it are outside the property",
            "fixed-buffer writers are created with size >= 1 (size 0 underflows in the code; excluded by the property's quantifier)",
            "real allocator failure inside Vec::reserve aborts and cannot be scripted",
        ],
    },
    "C17": {
        "rule": "hand-written documented examples + random configurations: 8 target spellings x subsets of 17 keys (shared, language-scoped for kotlin/js/nanobind/demo_gen, backend-specific, unknown) x three sources (config.toml with kebab or snake spelling and tables; --config k=v with bare or quoted text; #[diplomat::config] on struct/mod/impl items) x well-typed and (1/12) ill-typed values; distinct = distinct protocol lines; non-trivial = at least one source non-empty",
        "trusted_base": [
            KERNEL, HARNESS,
            "key strings are parsed into (scope, name) by the model driver with String.splitOn; keys with two or more dots are not generated",
            "modelled not verified: toml crate parsing, heck::AsSnakeCase restricted to lowercase/digit/_/- keys, syn parsing of the attribute; clap argument splitting (main.rs) is bypassed: the harness calls Config::read_file/read_cli_settings and the hook effective_config in main.rs's order",
        ],
        "assumptions": [
            "config.toml does not contain the same key in both kebab and snake spelling (iteration order of toml::Table would decide)",
            "values are strings without escapes, booleans or integers",
        ],
    },
    "C13": {
        "tables": ["AttrSupport"],
        "rule": "exhaustive small formulas (atoms: 7 backend names, *, 4 supports flags; not/any/all to depth 2) x 7 backends through a one-type module; random bridge modules (1-3 opaque types, 1-2 impl blocks, 1-2 methods) with 0-2 attributes (disable / rename with and without {0}) on module, type, impl and method, formulas to depth 3 incl. unknown names, unknown supports values and auto (error paths) x 7 backends; metamorphic oracle: remove one attribute and compare all 7 real backend outputs; distinct = distinct protocol lines",
        "trusted_base": [
            KERNEL, HARNESS,
            "translator: `match value` arms of is_name_value read with syn; backend flags obtained by calling the real attr_support() through the cfg-guarded hook",
            "modelled not verified: syn parsing of #[diplomat::attr(...)], the rest of Attrs::from_ast (special methods, namespace, error, demo attrs are outside C13 and counted as errors by the model)",
        ],
        "assumptions": [
            "only opaque types with &self methods are generated (the attribute machinery is the same for structs/enums; enum variants do not inherit disable)",
            "rename rendering is checked at the HIR level (pattern carried by the item); the spelling in each backend's files is covered by the metamorphic byte-identity oracle only",
        ],
    },
}
