"""Per-property configuration for ./check (what is proved, what is trusted, how cases are made)."""

KERNEL = "Lean 4.33.0 kernel; axioms allowed: propext, Classical.choice, Quot.sound (checked per theorem by #print axioms); no sorry/native_decide/own axioms"
HARNESS = "correspondence harness (vharness): case generators, fragment containment on whitespace-normalised text, s-expression printer"

PROPS = {
    "C11": {
        "rule": "random C-like enums (1..8 variants quick, up to 40 thorough; explicit/implicit/negative/non-monotonic/i32-boundary discriminants, contiguous and broken-prefix shapes); distinct = distinct variant lists; every generated enum is non-trivial (has >= 1 variant and is rendered by six backends)",
        "trusted_base": [
            KERNEL, HARNESS,
            "modelled not verified: meaning of the printed tables in C/C++/JS (validated each run by gcc, g++ and node on the real outputs), Dart, Kotlin/JNA and nanobind (documented semantics; SDKs absent)",
            "rustc's discriminant rule is validated each run by compiling the sampled enums with rustc",
        ],
        "assumptions": [
            "Dart `index`/`values[i]`/`firstWhere`, Kotlin `ordinal`/`entries[i]`/`when`, nanobind `.value(name, cpp_enumerator)` behave as their language documentation says (A-dart, A-jna)",
            "variant names are single capitalised words (no heck case-splitting is modelled)",
        ],
    },
}
